#!/bin/sh
# usage: run_tlc.sh <MCmodule> [workers] [extra tlc args]; run from /verif/spec
m=$1; w=${2:-8}; shift; shift 2>/dev/null
mkdir -p /verif/work/tlc/$m
cd /verif/spec/mc && exec timeout ${TLC_TIMEOUT:-900} java -XX:+UseParallelGC -Xmx${TLC_XMX:-8g} -Xss1g -DTLA-Library=/verif/spec -cp /opt/veriftools/tla/tla2tools.jar:/opt/veriftools/tla/CommunityModules-deps.jar tlc2.TLC -workers $w -metadir /verif/work/tlc/$m/meta -cleanup -noGenerateSpecTE -config $m.cfg "$@" $m.tla
