---------------------------- MODULE LocustStore ----------------------------
(***************************************************************************)
(* Core specification of LocustDB's storage engine: tables (open buffer,  *)
(* frozen buffer, partitions), the catalogue tables, the write-ahead log, *)
(* the in-memory and the persisted catalogue of partitions (MetaStore),   *)
(* the flush / compaction pipeline, crash and recovery, query snapshots.  *)
(*                                                                         *)
(* One action per critical section of the implementation; the name of the *)
(* code location is given with each action.  Rows are abstract: a table   *)
(* holds a sequence of *request ids*; what request r put into table t     *)
(* (number of rows, set of columns, for catalogue tables the set of names)*)
(* is recorded once in reqDef[r].  Ingestion applies a request to a table *)
(* under that table's buffer lock and freezing happens under the same     *)
(* global lock as ingestion, so a request's rows for one table are never  *)
(* split by the implementation either.                                     *)
(***************************************************************************)
EXTENDS Integers, Sequences, FiniteSets, TLC, SequencesExt, FiniteSetsExt

CONSTANTS
    UT,          \* user tables (strings)
    Shapes,      \* ingest shapes; a shape is a set of [t |-> table, n |-> rows, cols |-> set of column names]
    SubKeys,     \* file keys every partition is written under (model: {"all"} or two keys; traces: bound from events)
    Clients,     \* ingestion clients
    QClients,    \* query clients
    MaxReq,      \* bound on requests
    MaxWal,      \* ingestion blocks while walAcct > MaxWal; flush thread triggers when walAcct > MaxWal
    MaxWalFiles, \* flush thread triggers when next - earliest > MaxWalFiles
    CombineMode, \* "always" | "pairs" | "never" | "any"  (partition_combine_factor 0 / 1 / 999 / other)
    FsSteps,     \* TRUE: FileBlobWriter::store is create / write / rename; FALSE: one step
    Dev,         \* set of named deviations that are switched on (empty in every deciding configuration)
    Avoid        \* failure messages of known findings: behaviours that would hit one are cut off (the step is
                 \* disabled), so that a known finding cannot mask a different violation

MT == "_meta_tables"
MC(t) == "_meta_columns_" \o t
MCs == {MC(t) : t \in UT}
AllT == UT \cup {MT} \cup MCs
IsMC(t) == t \in MCs
UserOf(mc) == CHOOSE t \in UT : MC(t) = mc

VARIABLES
    \* ---- volatile ----
    up,          \* API available (recovery finished, not stopped)
    tabs,        \* tables present in InnerLocustDB.tables
    buffer,      \* [AllT -> Seq(req)]    Table.buffer
    frozen,      \* [AllT -> Seq(req)]    Table.frozen_buffer
    parts,       \* [AllT -> set of partition records]   Table.partitions
    nextPid,     \* [AllT -> Nat]
    nextOff,     \* [AllT -> Nat]
    colNames,    \* [AllT -> [loaded : BOOLEAN, names : set]]   Table.column_names
    ms,          \* in-memory MetaStore [earliest, next, parts]
    walAcct,     \* InnerLocustDB.wal_size, counted in segments
    walLock,     \* holder of the wal_size mutex: "free", "flush" or a client
    ing,         \* [Clients -> ingestion state]
    fl,          \* flush thread state
    pendingFlush,\* callers of force_flush waiting for the flush thread (a set of ids 1..n as a counter)
    rec,         \* recovery state
    qs,          \* [QClients -> query state]
    \* ---- disk ----
    dMeta,       \* [exists, earliest, parts]
    dWal,        \* set of [id, req]
    dPart,       \* set of [t, id, key]
    dTmp,        \* set of temp files [kind, st, ...]
    \* ---- history ----
    nreq,        \* requests started so far
    reqDef,      \* [1..nreq -> set of chunks [t, n, names]]
    logical,     \* [AllT -> Seq(req)]  acknowledged content, in acknowledgement order
    ncrash,
    broken       \* "" or the name of the first safety violation noticed by an action

vol == <<up, tabs, buffer, frozen, parts, nextPid, nextOff, colNames, ms, walAcct, walLock, ing, fl, pendingFlush, rec, qs>>
disk == <<dMeta, dWal, dPart, dTmp>>
histv == <<nreq, reqDef, logical, ncrash, broken>>
vars == <<vol, disk, histv>>

-----------------------------------------------------------------------------
(* helpers *)


ChunkOf(r, t) == CHOOSE c \in reqDef[r] : c.t = t
HasChunk(r, t) == \E c \in reqDef[r] : c.t = t
RowsOf(r, t) == ChunkOf(r, t).n

RECURSIVE SumRows(_, _)
SumRows(t, sq) == IF sq = <<>> THEN 0 ELSE RowsOf(Head(sq), t) + SumRows(t, Tail(sq))

\* the column keys a chunk carries when it is pushed into a table buffer
KeysOfChunk(c) == IF c.t = MT THEN {"timestamp", "name"}
                  ELSE IF IsMC(c.t) THEN {"column_name"}
                  ELSE c.names
KeysOfReqs(t, sq) == UNION {KeysOfChunk(ChunkOf(sq[i], t)) : i \in 1..Len(sq)}

PKey(p) == [t |-> p.t, id |-> p.id]
ByOff(S) == SetToSortSeq(S, LAMBDA a, b : a.off < b.off)
RECURSIVE FlatReqs(_)
FlatReqs(sq) == IF sq = <<>> THEN <<>> ELSE Head(sq).reqs \o FlatReqs(Tail(sq))

\* what a query snapshot of table t sees, as a sequence of requests
Content(t) == FlatReqs(ByOff(parts[t])) \o frozen[t] \o buffer[t]

\* names stored in catalogue table mc (as a bag: sequence of sets)
NamesIn(t, sq) == UNION {ChunkOf(sq[i], t).names : i \in 1..Len(sq)}

NoCN == [loaded |-> FALSE, names |-> {}]
FreshCN(t) == IF IsMC(t)
                THEN [loaded |-> TRUE, names |-> IF "MetaColumnsNameTypo" \in Dev THEN {"column_names"} ELSE {"column_name"}]
              ELSE IF t = MT THEN [loaded |-> TRUE, names |-> {"timestamp", "name"}]
              ELSE [loaded |-> TRUE, names |-> {}]
\* Table::new(name, lru, None) as used by restore_tables_from_disk
RestoredCN(t) == IF IsMC(t) \/ t = MT THEN FreshCN(t) ELSE NoCN

EmptyMs == [earliest |-> 0, next |-> 0, parts |-> {}]
NoMeta == [exists |-> FALSE, earliest |-> 0, parts |-> {}]

IdleIng == [pc |-> "idle", req |-> 0, toApply |-> {}, wal |-> "none", walId |-> 0]
IdleFl == [pc |-> "idle", lo |-> 0, hi |-> 0, tables |-> {}, todoFreeze |-> {}, todo |-> {}, batched |-> {},
           newParts |-> {}, persisted |-> {}, inserted |-> {}, plans |-> {}, toDelete |-> {}, waiters |-> 0]
IdleRec == [pc |-> "up", todoWal |-> {}, segs |-> {}, last |-> -1]
IdleQ == [pc |-> "idle", t |-> "", snap |-> <<>>, todo |-> {}, acked |-> <<>>]

Fail(what) == what \notin Avoid /\ broken' = IF broken = "" THEN what ELSE broken

-----------------------------------------------------------------------------
Init ==
    /\ up = TRUE
    /\ tabs = {MT}
    /\ buffer = [t \in AllT |-> <<>>]
    /\ frozen = [t \in AllT |-> <<>>]
    /\ parts = [t \in AllT |-> {}]
    /\ nextPid = [t \in AllT |-> 0]
    /\ nextOff = [t \in AllT |-> 0]
    /\ colNames = [t \in AllT |-> FreshCN(t)]
    /\ ms = EmptyMs
    /\ walAcct = 0
    /\ walLock = "free"
    /\ ing = [c \in Clients |-> IdleIng]
    /\ fl = IdleFl
    /\ pendingFlush = 0
    /\ rec = IdleRec
    /\ qs = [q \in QClients |-> IdleQ]
    /\ dMeta = NoMeta
    /\ dWal = {}
    /\ dPart = {}
    /\ dTmp = {}
    /\ nreq = 0
    /\ reqDef = <<>>
    /\ logical = [t \in AllT |-> <<>>]
    /\ ncrash = 0
    /\ broken = ""

-----------------------------------------------------------------------------
(* Ingestion: InnerLocustDB::ingest_efficient *)

\* acquire the wal_size mutex; wait while the accounted size exceeds the limit
IngestLock(c) ==
    /\ up /\ ing[c].pc = "idle" /\ walLock = "free" /\ walAcct <= MaxWal /\ nreq < MaxReq
    /\ walLock' = c
    /\ nreq' = nreq + 1
    /\ reqDef' = Append(reqDef, {})
    /\ ing' = [ing EXCEPT ![c] = [IdleIng EXCEPT !.pc = "locked", !.req = nreq + 1]]
    /\ UNCHANGED <<up, tabs, buffer, frozen, parts, nextPid, nextOff, colNames, ms, walAcct, fl, pendingFlush, rec, qs, disk, logical, ncrash, broken>>

\* query_column_names: reads whatever the column catalogue table contains at this instant
LoadedNames(t) == NamesIn(MC(t), Content(MC(t)))

\* create missing tables, make sure the name set is loaded, work out catalogue rows, add them to the request
IngestCatalogue(c, sh) ==
    /\ ing[c].pc = "locked"
    /\ LET r == ing[c].req
           uts == {ch.t : ch \in sh}
           newTabs == (uts \cup {MC(t) : t \in uts}) \ tabs
           cn1 == [t \in AllT |->
                     IF t \in newTabs THEN FreshCN(t)
                     ELSE IF t \in uts /\ ~colNames[t].loaded
                          THEN [loaded |-> TRUE, names |-> LoadedNames(t)]
                          ELSE colNames[t]]
           newCols == [t \in uts |-> (CHOOSE ch \in sh : ch.t = t).names \ cn1[t].names]
           mtChunk == IF newTabs = {} THEN {} ELSE {[t |-> MT, n |-> Cardinality(newTabs), names |-> newTabs]}
           mcChunks == {[t |-> MC(t), n |-> Cardinality(newCols[t]), names |-> newCols[t]] : t \in {u \in uts : newCols[u] # {}}}
           full == sh \cup mtChunk \cup mcChunks
       IN /\ tabs' = tabs \cup newTabs
          /\ colNames' = cn1
          /\ reqDef' = [reqDef EXCEPT ![r] = full]
          /\ ing' = [ing EXCEPT ![c].pc = "catalogued", ![c].toApply = {ch.t : ch \in full}]
    /\ UNCHANGED <<up, buffer, frozen, parts, nextPid, nextOff, ms, walAcct, walLock, fl, pendingFlush, rec, qs, disk, nreq, logical, ncrash, broken>>

\* Storage::persist_wal_segment, in its own thread: id under the MetaStore lock ...
WalAssign(c) ==
    /\ ing[c].pc = "catalogued" /\ ing[c].wal = "none"
    /\ ing' = [ing EXCEPT ![c].wal = "assigned", ![c].walId = ms.next]
    /\ ms' = [ms EXCEPT !.next = @ + 1]
    /\ UNCHANGED <<up, tabs, buffer, frozen, parts, nextPid, nextOff, colNames, walAcct, walLock, fl, pendingFlush, rec, qs, disk, histv>>

\* ... then FileBlobWriter::store (one step, or create / write / rename)
WalTmp(c) == [kind |-> "wal", id |-> ing[c].walId, req |-> ing[c].req]
WalStore(c) ==
    /\ ~FsSteps
    /\ ing[c].pc = "catalogued" /\ ing[c].wal = "assigned"
    /\ dWal' = dWal \cup {[id |-> ing[c].walId, req |-> ing[c].req]}
    /\ ing' = [ing EXCEPT ![c].wal = "stored"]
    /\ UNCHANGED <<up, tabs, buffer, frozen, parts, nextPid, nextOff, colNames, ms, walAcct, walLock, fl, pendingFlush, rec, qs, dMeta, dPart, dTmp, histv>>
WalTmpCreate(c) ==
    /\ FsSteps /\ ing[c].pc = "catalogued" /\ ing[c].wal = "assigned"
    /\ dTmp' = {x \in dTmp : ~(x.f.kind = "wal" /\ x.f.id = ing[c].walId)} \cup {[f |-> WalTmp(c), st |-> "empty"]}
    /\ ing' = [ing EXCEPT ![c].wal = "created"]
    /\ UNCHANGED <<up, tabs, buffer, frozen, parts, nextPid, nextOff, colNames, ms, walAcct, walLock, fl, pendingFlush, rec, qs, dMeta, dWal, dPart, histv>>
WalTmpWrite(c) ==
    /\ FsSteps /\ ing[c].pc = "catalogued" /\ ing[c].wal \in {"created", "partial"}
    /\ \E st \in (IF ing[c].wal = "created" THEN {"partial", "full"} ELSE {"full"}) :
         /\ dTmp' = {x \in dTmp : x.f # WalTmp(c)} \cup {[f |-> WalTmp(c), st |-> st]}
         /\ ing' = [ing EXCEPT ![c].wal = IF st = "full" THEN "written" ELSE "partial"]
    /\ UNCHANGED <<up, tabs, buffer, frozen, parts, nextPid, nextOff, colNames, ms, walAcct, walLock, fl, pendingFlush, rec, qs, dMeta, dWal, dPart, histv>>
WalRename(c) ==
    /\ FsSteps /\ ing[c].pc = "catalogued" /\ ing[c].wal = "written"
    /\ dTmp' = {x \in dTmp : x.f # WalTmp(c)}
    /\ dWal' = dWal \cup {[id |-> ing[c].walId, req |-> ing[c].req]}
    /\ ing' = [ing EXCEPT ![c].wal = "stored"]
    /\ UNCHANGED <<up, tabs, buffer, frozen, parts, nextPid, nextOff, colNames, ms, walAcct, walLock, fl, pendingFlush, rec, qs, dMeta, dPart, histv>>

\* Table::ingest_homogeneous under the buffer lock; runs concurrently with the log write
ApplyTable(c, t) ==
    /\ ing[c].pc = "catalogued" /\ t \in ing[c].toApply
    /\ IF ~colNames[t].loaded THEN Fail("ingest into a table whose column names are not initialised") ELSE UNCHANGED broken
    /\ buffer' = [buffer EXCEPT ![t] = Append(@, ing[c].req)]
    /\ colNames' = [colNames EXCEPT ![t].names = @ \cup KeysOfChunk(ChunkOf(ing[c].req, t))]
    /\ ing' = [ing EXCEPT ![c].toApply = @ \ {t}]
    /\ UNCHANGED <<up, tabs, frozen, parts, nextPid, nextOff, ms, walAcct, walLock, fl, pendingFlush, rec, qs, disk, nreq, reqDef, logical, ncrash>>

\* join the log thread, account its size, release the lock: the call returns
IngestAck(c) ==
    /\ ing[c].pc = "catalogued" /\ ing[c].toApply = {} /\ ing[c].wal = "stored"
    /\ walAcct' = walAcct + 1
    /\ walLock' = "free"
    /\ logical' = [t \in AllT |-> IF HasChunk(ing[c].req, t) THEN Append(logical[t], ing[c].req) ELSE logical[t]]
    /\ ing' = [ing EXCEPT ![c] = IdleIng]
    /\ UNCHANGED <<up, tabs, buffer, frozen, parts, nextPid, nextOff, colNames, ms, fl, pendingFlush, rec, qs, disk, nreq, reqDef, ncrash, broken>>

-----------------------------------------------------------------------------
(* Flush: enforce_wal_limit / wal_flush, a single thread *)

ForceFlushCall ==
    /\ up /\ pendingFlush < 2
    /\ pendingFlush' = pendingFlush + 1
    /\ UNCHANGED <<up, tabs, buffer, frozen, parts, nextPid, nextOff, colNames, ms, walAcct, walLock, ing, fl, rec, qs, disk, histv>>

FlushTrigger ==
    /\ up /\ fl.pc = "idle"
    /\ pendingFlush > 0 \/ walAcct > MaxWal \/ ms.next - ms.earliest > MaxWalFiles
    /\ fl' = [IdleFl EXCEPT !.pc = "triggered", !.waiters = pendingFlush]
    /\ pendingFlush' = 0
    /\ UNCHANGED <<up, tabs, buffer, frozen, parts, nextPid, nextOff, colNames, ms, walAcct, walLock, ing, rec, qs, disk, histv>>

\* take the wal_size mutex, record the range of unflushed segments and the list of tables
FlushLock ==
    /\ fl.pc = "triggered" /\ walLock = "free"
    /\ walLock' = "flush"
    /\ fl' = [fl EXCEPT !.pc = "freezing", !.lo = ms.earliest, !.hi = ms.next, !.tables = tabs, !.todoFreeze = tabs]
    /\ UNCHANGED <<up, tabs, buffer, frozen, parts, nextPid, nextOff, colNames, ms, walAcct, ing, pendingFlush, rec, qs, disk, histv>>

\* Table::freeze_buffer
FreezeTable(t) ==
    /\ fl.pc = "freezing" /\ t \in fl.todoFreeze
    /\ IF frozen[t] # <<>> THEN Fail("frozen buffer is not empty") ELSE UNCHANGED broken
    /\ frozen' = [frozen EXCEPT ![t] = buffer[t]]
    /\ buffer' = [buffer EXCEPT ![t] = <<>>]
    /\ fl' = [fl EXCEPT !.todoFreeze = @ \ {t}]
    /\ UNCHANGED <<up, tabs, parts, nextPid, nextOff, colNames, ms, walAcct, walLock, ing, pendingFlush, rec, qs, disk, nreq, reqDef, logical, ncrash>>

\* reset the accounted size, wake blocked ingestion, release the mutex
FlushFreeze ==
    /\ fl.pc = "freezing" /\ fl.todoFreeze = {}
    /\ walAcct' = 0
    /\ walLock' = "free"
    /\ fl' = [fl EXCEPT !.pc = "batching", !.todo = fl.tables]
    /\ UNCHANGED <<up, tabs, buffer, frozen, parts, nextPid, nextOff, colNames, ms, ing, pendingFlush, rec, qs, disk, histv>>

\* Table::batch: frozen buffer becomes a partition, holding the frozen lock across the insert
NewPart(t) == [t |-> t, id |-> nextPid[t], off |-> nextOff[t], len |-> SumRows(t, frozen[t]),
               reqs |-> frozen[t], pcols |-> KeysOfReqs(t, frozen[t]), keys |-> {}, cold |-> FALSE]
Batch(t) ==
    /\ fl.pc = "batching" /\ t \in fl.todo /\ t \notin fl.batched /\ frozen[t] # <<>>
    /\ parts' = [parts EXCEPT ![t] = @ \cup {NewPart(t)}]
    /\ frozen' = [frozen EXCEPT ![t] = <<>>]
    /\ nextPid' = [nextPid EXCEPT ![t] = @ + 1]
    /\ nextOff' = [nextOff EXCEPT ![t] = @ + SumRows(t, frozen[t])]
    /\ fl' = [fl EXCEPT !.batched = @ \cup {t}, !.newParts = @ \cup {NewPart(t)}]
    /\ UNCHANGED <<up, tabs, buffer, colNames, ms, walAcct, walLock, ing, pendingFlush, rec, qs, disk, histv>>

\* Table::plan_compaction: an offset-contiguous suffix of the partitions, as the mode permits
PSuffixes(S) == LET sq == ByOff(S) IN {{sq[j] : j \in i..Len(sq)} : i \in 1..Len(sq)}
Plans(S) == CASE CombineMode = "never" -> {{}}
              [] CombineMode = "always" -> IF S = {} THEN {{}} ELSE {S, {}}   \* {} when every partition has size 0
              [] CombineMode = "pairs" -> IF Cardinality(S) >= 2 THEN {S, {}} ELSE {{}}
              [] CombineMode = "always1" -> IF S = {} THEN {{}} ELSE {S}      \* deterministic variants, used when
              [] CombineMode = "pairs1" -> IF Cardinality(S) >= 2 THEN {S} ELSE {{}}  \* emitting behaviours for replay
              [] OTHER -> PSuffixes(S) \cup {{}}
Plan(t) ==
    /\ fl.pc = "batching" /\ t \in fl.todo /\ (frozen[t] = <<>> \/ t \in fl.batched)
    /\ IF t \in fl.batched /\ \E x \in parts[t] : x.cold /\ \E n \in fl.newParts : PKey(n) = PKey(x)
         THEN Fail("flush finds a column of the partition it has just registered evicted")
         ELSE UNCHANGED broken
    /\ \E plan \in Plans(parts[t]) :
         IF plan = {}
         THEN /\ fl' = [fl EXCEPT !.todo = @ \ {t}]
              /\ UNCHANGED nextPid
         ELSE /\ fl' = [fl EXCEPT !.todo = @ \ {t},
                                  !.plans = @ \cup {[t |-> t, cid |-> nextPid[t], old |-> plan, st |-> "planned", names |-> {}, keys |-> {}]}]
              /\ nextPid' = [nextPid EXCEPT ![t] = @ + 1]
    /\ UNCHANGED <<up, tabs, buffer, frozen, parts, nextOff, colNames, ms, walAcct, walLock, ing, pendingFlush, rec, qs, disk, nreq, reqDef, logical, ncrash>>

\* the stages of wal_flush follow one another: all tables batched -> new partitions persisted and
\* registered -> compactions -> catalogue stored -> orphans deleted -> log segments deleted
PersistPhase == fl.pc = "batching" /\ fl.todo = {}
CompactPhase == PersistPhase /\ \A p \in fl.newParts : PKey(p) \in fl.inserted
MetaPhase == CompactPhase /\ \A pl \in fl.plans : pl.st = "done"

\* Storage::persist_partitions -> write_subpartitions: one file per sub-partition key ...
PersistSub(p, k) ==
    /\ PersistPhase /\ p \in fl.newParts /\ PKey(p) \notin fl.inserted
    /\ [p |-> PKey(p), k |-> k] \notin fl.persisted
    /\ UNCHANGED broken
    /\ dPart' = dPart \cup {[t |-> p.t, id |-> p.id, key |-> k]}
    /\ fl' = [fl EXCEPT !.persisted = @ \cup {[p |-> PKey(p), k |-> k]}]
    /\ UNCHANGED <<up, tabs, buffer, frozen, parts, nextPid, nextOff, colNames, ms, walAcct, walLock, ing, pendingFlush, rec, qs, dMeta, dWal, dTmp, nreq, reqDef, logical, ncrash>>
\* ... then MetaStore::insert_partition under the catalogue lock
KeysPersisted(p) == {x.k : x \in {y \in fl.persisted : y.p = PKey(p)}}
MsInsert(p) ==
    /\ PersistPhase /\ p \in fl.newParts /\ PKey(p) \notin fl.inserted
    /\ KeysPersisted(p) # {}
    /\ ms' = [ms EXCEPT !.parts = @ \cup {[p EXCEPT !.keys = KeysPersisted(p)]}]
    /\ fl' = [fl EXCEPT !.inserted = @ \cup {PKey(p)}]
    /\ UNCHANGED <<up, tabs, buffer, frozen, parts, nextPid, nextOff, colNames, walAcct, walLock, ing, pendingFlush, rec, qs, disk, histv>>

\* InnerLocustDB::compact: read (lazily load) the name set ...
SetPlan(pl, new) == fl' = [fl EXCEPT !.plans = (@ \ {pl}) \cup {new}]
CompactNames(pl) ==
    /\ CompactPhase /\ pl \in fl.plans /\ pl.st = "planned"
    /\ LET t == pl.t
           cn == IF colNames[t].loaded THEN colNames[t] ELSE [loaded |-> TRUE, names |-> LoadedNames(t)]
       IN /\ colNames' = [colNames EXCEPT ![t] = cn]
          /\ SetPlan(pl, [pl EXCEPT !.st = "named", !.names = cn.names])
    /\ UNCHANGED <<up, tabs, buffer, frozen, parts, nextPid, nextOff, ms, walAcct, walLock, ing, pendingFlush, rec, qs, disk, histv>>

FilesOf(S) == UNION {{[t |-> p.t, id |-> p.id, key |-> k] : k \in p.keys} : p \in S}
Merged(pl) == LET sq == ByOff(pl.old) IN
    [t |-> pl.t, id |-> pl.cid, off |-> sq[1].off, len |-> SumRows(pl.t, FlatReqs(sq)), reqs |-> FlatReqs(sq),
     pcols |-> pl.names, keys |-> pl.keys, cold |-> FALSE]
\* ... build the merged columns, then Table::compact under the partitions write lock
CompactSwap(pl) ==
    /\ CompactPhase /\ pl \in fl.plans /\ pl.st = "named"
    /\ LET cur == {x \in parts[pl.t] : PKey(x) \in {PKey(o) : o \in pl.old}}
           unreadable == {x \in cur : x.cold /\ ~(\E m \in ms.parts : PKey(m) = PKey(x) /\ FilesOf({m}) \subseteq dPart)}
       IN IF Cardinality(cur) # Cardinality(pl.old) THEN Fail("compaction of a partition that is gone")
          ELSE IF unreadable # {} THEN Fail("compaction reads a cold partition that is not on disk")
          ELSE UNCHANGED broken
    /\ parts' = [parts EXCEPT ![pl.t] = {x \in @ : PKey(x) \notin {PKey(o) : o \in pl.old}} \cup {Merged(pl)}]
    /\ SetPlan(pl, [pl EXCEPT !.st = "swapped"])
    /\ UNCHANGED <<up, tabs, buffer, frozen, nextPid, nextOff, colNames, ms, walAcct, walLock, ing, pendingFlush, rec, qs, disk, nreq, reqDef, logical, ncrash>>
\* Storage::prepare_compact: files of the merged partition ...
CompactPersist(pl, k) ==
    /\ CompactPhase /\ pl \in fl.plans /\ pl.st = "swapped" /\ k \notin pl.keys
    /\ dPart' = dPart \cup {[t |-> pl.t, id |-> pl.cid, key |-> k]}
    /\ SetPlan(pl, [pl EXCEPT !.keys = @ \cup {k}])
    /\ UNCHANGED <<up, tabs, buffer, frozen, parts, nextPid, nextOff, colNames, ms, walAcct, walLock, ing, pendingFlush, rec, qs, dMeta, dWal, dTmp, histv>>
\* ... then delete old / insert new in the in-memory catalogue
CompactMs(pl) ==
    /\ CompactPhase /\ pl \in fl.plans /\ pl.st = "swapped" /\ pl.keys # {}
    /\ LET oldIds == {PKey(p) : p \in pl.old}
           oldMs == {p \in ms.parts : PKey(p) \in oldIds}
       IN /\ IF Cardinality(oldMs) # Cardinality(pl.old) THEN Fail("compacted partition unknown to the catalogue") ELSE UNCHANGED broken
          /\ ms' = [ms EXCEPT !.parts = (@ \ oldMs) \cup {Merged(pl)}]
          /\ fl' = [fl EXCEPT !.plans = (@ \ {pl}) \cup {[pl EXCEPT !.st = "done"]},
                              !.toDelete = @ \cup FilesOf(oldMs)]
    /\ UNCHANGED <<up, tabs, buffer, frozen, parts, nextPid, nextOff, colNames, walAcct, walLock, ing, pendingFlush, rec, qs, disk, nreq, reqDef, logical, ncrash>>

\* Storage::persist_metastore: advance the cursor to the end of the frozen range, then store
MetaTmp == [kind |-> "meta", earliest |-> fl.hi, parts |-> ms.parts]
PersistMeta ==
    /\ ~FsSteps
    /\ MetaPhase
    /\ ms' = [ms EXCEPT !.earliest = IF "CursorIsNextWal" \in Dev THEN ms.next ELSE fl.hi]
    /\ dMeta' = [exists |-> TRUE, earliest |-> ms'.earliest, parts |-> ms.parts]
    /\ fl' = [fl EXCEPT !.pc = "meta", !.todo = fl.lo..(fl.hi - 1)]
    /\ UNCHANGED <<up, tabs, buffer, frozen, parts, nextPid, nextOff, colNames, walAcct, walLock, ing, pendingFlush, rec, qs, dWal, dPart, dTmp, histv>>
MetaAdvance ==
    /\ FsSteps
    /\ MetaPhase
    /\ ms' = [ms EXCEPT !.earliest = fl.hi]
    /\ dTmp' = {x \in dTmp : x.f.kind # "meta"} \cup {[f |-> MetaTmp, st |-> "empty"]}   \* File::create truncates a stale temp file
    /\ fl' = [fl EXCEPT !.pc = "metaCreated"]
    /\ UNCHANGED <<up, tabs, buffer, frozen, parts, nextPid, nextOff, colNames, walAcct, walLock, ing, pendingFlush, rec, qs, dMeta, dWal, dPart, histv>>
MetaWrite ==
    /\ FsSteps /\ fl.pc \in {"metaCreated", "metaPartial"}
    /\ \E x \in {y \in dTmp : y.f.kind = "meta"} :
         \E st \in (IF fl.pc = "metaCreated" THEN {"partial", "full"} ELSE {"full"}) :
           /\ dTmp' = (dTmp \ {x}) \cup {[x EXCEPT !.st = st]}
           /\ fl' = [fl EXCEPT !.pc = IF st = "full" THEN "metaWritten" ELSE "metaPartial"]
    /\ UNCHANGED <<up, tabs, buffer, frozen, parts, nextPid, nextOff, colNames, ms, walAcct, walLock, ing, pendingFlush, rec, qs, dMeta, dWal, dPart, histv>>
MetaRename ==
    /\ FsSteps /\ fl.pc = "metaWritten"
    /\ \E x \in {y \in dTmp : y.f.kind = "meta"} :
         /\ dTmp' = dTmp \ {x}
         /\ dMeta' = [exists |-> TRUE, earliest |-> x.f.earliest, parts |-> x.f.parts]
    /\ fl' = [fl EXCEPT !.pc = "meta", !.todo = fl.lo..(fl.hi - 1)]
    /\ UNCHANGED <<up, tabs, buffer, frozen, parts, nextPid, nextOff, colNames, ms, walAcct, walLock, ing, pendingFlush, rec, qs, dWal, dPart, histv>>

\* Storage::delete_orphaned_partitions
DeleteOrphan(f) ==
    /\ fl.pc = "meta" /\ f \in fl.toDelete
    /\ IF f \notin dPart THEN Fail("deleting a partition file that does not exist") ELSE UNCHANGED broken
    /\ dPart' = dPart \ {f}
    /\ fl' = [fl EXCEPT !.toDelete = @ \ {f}]
    /\ UNCHANGED <<up, tabs, buffer, frozen, parts, nextPid, nextOff, colNames, ms, walAcct, walLock, ing, pendingFlush, rec, qs, dMeta, dWal, dTmp, nreq, reqDef, logical, ncrash>>
\* Storage::delete_wal_segments
DeleteWal(id) ==
    /\ fl.pc = "meta" /\ fl.toDelete = {} /\ id \in fl.todo
    /\ IF ~\E w \in dWal : w.id = id THEN Fail("deleting a log segment that does not exist") ELSE UNCHANGED broken
    /\ dWal' = {w \in dWal : w.id # id}
    /\ fl' = [fl EXCEPT !.todo = @ \ {id}]
    /\ UNCHANGED <<up, tabs, buffer, frozen, parts, nextPid, nextOff, colNames, ms, walAcct, walLock, ing, pendingFlush, rec, qs, dMeta, dPart, dTmp, nreq, reqDef, logical, ncrash>>
\* back in enforce_wal_limit: answer the force_flush callers taken before this flush
FlushDone ==
    /\ fl.pc = "meta" /\ fl.toDelete = {} /\ fl.todo = {}
    /\ fl' = IdleFl
    /\ UNCHANGED <<up, tabs, buffer, frozen, parts, nextPid, nextOff, colNames, ms, walAcct, walLock, ing, pendingFlush, rec, qs, disk, histv>>

-----------------------------------------------------------------------------
(* Queries: LocustDB::run_query.  The snapshot takes the frozen lock, the  *)
(* partitions lock and the buffer lock together (Table::snapshot).         *)

QuerySnapshot(q, t) ==
    /\ up /\ qs[q].pc = "idle" /\ t \in tabs
    /\ qs' = [qs EXCEPT ![q] = [pc |-> "reading", t |-> t, snap |-> Content(t),
                                todo |-> {p \in parts[t] : TRUE}, acked |-> logical[t]]]
    /\ UNCHANGED <<up, tabs, buffer, frozen, parts, nextPid, nextOff, colNames, ms, walAcct, walLock, ing, fl, pendingFlush, rec, disk, histv>>

\* reading one snapshotted partition; a cold column is loaded through the in-memory catalogue and from disk
QueryRead(q, p) ==
    /\ qs[q].pc = "reading" /\ p \in qs[q].todo
    /\ LET known == \E m \in ms.parts : PKey(m) = PKey(p)
           onDisk == \A k \in p.keys : [t |-> p.t, id |-> p.id, key |-> k] \in dPart
           coldNow == p.cold \/ \E x \in parts[p.t] : PKey(x) = PKey(p) /\ x.cold
       IN IF coldNow /\ ~(known /\ onDisk) THEN Fail("query reads a cold partition whose files or catalogue entry are gone")
          ELSE UNCHANGED broken
    /\ qs' = [qs EXCEPT ![q].todo = @ \ {p}]
    /\ UNCHANGED <<up, tabs, buffer, frozen, parts, nextPid, nextOff, colNames, ms, walAcct, walLock, ing, fl, pendingFlush, rec, disk, nreq, reqDef, logical, ncrash>>

QueryDone(q) ==
    /\ qs[q].pc = "reading" /\ qs[q].todo = {}
    /\ qs' = [qs EXCEPT ![q] = IdleQ]
    /\ UNCHANGED <<up, tabs, buffer, frozen, parts, nextPid, nextOff, colNames, ms, walAcct, walLock, ing, fl, pendingFlush, rec, disk, histv>>

-----------------------------------------------------------------------------
(* Crash, clean shutdown, recovery *)

Quiet == /\ \A c \in Clients : ing[c].pc = "idle"
         /\ fl.pc = "idle" /\ pendingFlush = 0
         /\ \A q \in QClients : qs[q].pc = "idle"

LoseMemory ==
    /\ up' = FALSE
    /\ tabs' = {} /\ buffer' = [t \in AllT |-> <<>>] /\ frozen' = [t \in AllT |-> <<>>]
    /\ parts' = [t \in AllT |-> {}] /\ nextPid' = [t \in AllT |-> 0] /\ nextOff' = [t \in AllT |-> 0]
    /\ colNames' = [t \in AllT |-> NoCN] /\ ms' = EmptyMs /\ walAcct' = 0 /\ walLock' = "free"
    /\ ing' = [c \in Clients |-> IdleIng] /\ fl' = IdleFl /\ pendingFlush' = 0
    /\ qs' = [q \in QClients |-> IdleQ]
    /\ rec' = [IdleRec EXCEPT !.pc = "down"]

\* the requests that were in flight when the process died (at most one holds the ingestion lock)
Inflight == {ing[c].req : c \in {d \in Clients : ing[d].pc = "catalogued"}}

Crash ==
    /\ rec.pc # "down"
    /\ LoseMemory
    /\ ncrash' = ncrash + 1
    /\ UNCHANGED <<disk, nreq, reqDef, logical, broken>>

Shutdown ==
    /\ up /\ Quiet
    /\ LoseMemory
    /\ UNCHANGED <<disk, histv>>

\* Storage::recover: load the catalogue ...
RecLoadMeta ==
    /\ rec.pc = "down"
    /\ ms' = IF dMeta.exists THEN [earliest |-> dMeta.earliest, next |-> dMeta.earliest, parts |-> dMeta.parts] ELSE EmptyMs
    /\ rec' = [rec EXCEPT !.pc = "wal",
                          !.todoWal = dWal \cup (IF "TmpInWalDirIsLoaded" \in Dev
                                                   THEN {[id |-> x.f.id, req |-> x.f.req] : x \in {y \in dTmp : y.f.kind = "wal" /\ y.st = "full"}}
                                                   ELSE {})]
    /\ dTmp' = IF "TmpInWalDirIsLoaded" \in Dev THEN dTmp ELSE {x \in dTmp : x.f.kind # "wal"}
    /\ UNCHANGED <<up, tabs, buffer, frozen, parts, nextPid, nextOff, colNames, walAcct, walLock, ing, fl, pendingFlush, qs, dMeta, dWal, dPart, histv>>
\* ... every file in wal/: delete those below the cursor, register the others
RecWal(w) ==
    /\ rec.pc = "wal" /\ w \in rec.todoWal
    /\ IF w.id < ms.earliest
         THEN /\ dWal' = dWal \ {w}
              /\ rec' = [rec EXCEPT !.todoWal = @ \ {w}]
              /\ UNCHANGED <<ms, walAcct>>
         ELSE /\ ms' = [ms EXCEPT !.next = IF w.id + 1 > @ THEN w.id + 1 ELSE @]
              /\ walAcct' = walAcct + 1
              /\ rec' = [rec EXCEPT !.todoWal = @ \ {w}, !.segs = @ \cup {w}]
              /\ UNCHANGED dWal
    /\ UNCHANGED <<up, tabs, buffer, frozen, parts, nextPid, nextOff, colNames, walLock, ing, fl, pendingFlush, qs, dMeta, dPart, dTmp, histv>>
\* Table::restore_tables_from_disk + create _meta_tables
RecTables ==
    /\ rec.pc = "wal" /\ rec.todoWal = {}
    /\ LET ts == {p.t : p \in ms.parts}
           P(t) == {[p EXCEPT !.cold = TRUE] : p \in {x \in ms.parts : x.t = t}}
       IN /\ tabs' = ts \cup {MT}
          /\ parts' = [t \in AllT |-> P(t)]
          /\ nextPid' = [t \in AllT |-> IF P(t) = {} THEN 0 ELSE Max({p.id : p \in P(t)}) + 1]
          /\ nextOff' = [t \in AllT |-> IF P(t) = {} THEN 0 ELSE Max({p.off + p.len : p \in P(t)})]
          /\ colNames' = [t \in AllT |-> IF t \in ts THEN RestoredCN(t) ELSE IF t = MT THEN FreshCN(MT) ELSE NoCN]
    /\ rec' = [rec EXCEPT !.pc = "replay"]
    /\ UNCHANGED <<up, buffer, frozen, ms, walAcct, walLock, ing, fl, pendingFlush, qs, disk, histv>>
\* replay loop of InnerLocustDB::new, in id order, asserting contiguity
RecReplay ==
    /\ rec.pc = "replay" /\ rec.segs # {}
    /\ LET w == CHOOSE x \in rec.segs : \A y \in rec.segs : x.id <= y.id
           r == w.req
           ts == {c.t : c \in reqDef[r]}
           newTabs == ts \ tabs
           \* tables of one segment are applied in hash-map order; the name set is loaded from the
           \* column catalogue as it is when the table's turn comes.  Either order gives the same
           \* final name set (apply adds the chunk's keys), so the model loads before applying.
           cn1 == [t \in AllT |->
                     IF t \in newTabs THEN FreshCN(t)
                     ELSE IF t \in ts /\ ~colNames[t].loaded
                          THEN (IF MC(t) \in tabs \cup newTabs THEN [loaded |-> TRUE, names |-> LoadedNames(t)] ELSE NoCN)
                          ELSE colNames[t]]
       IN /\ IF \E t \in ts : ~cn1[t].loaded THEN Fail("replay: column catalogue table missing")
             ELSE IF rec.last >= 0 /\ w.id # rec.last + 1 THEN Fail("replay: log segments are not contiguous")
             ELSE UNCHANGED broken
          /\ tabs' = tabs \cup newTabs
          /\ buffer' = [t \in AllT |-> IF t \in ts THEN Append(buffer[t], r) ELSE buffer[t]]
          /\ colNames' = [t \in AllT |-> IF t \in ts THEN [cn1[t] EXCEPT !.names = @ \cup KeysOfChunk(ChunkOf(r, t))] ELSE cn1[t]]
          /\ rec' = [rec EXCEPT !.segs = @ \ {w}, !.last = w.id]
    /\ UNCHANGED <<up, frozen, parts, nextPid, nextOff, ms, walAcct, walLock, ing, fl, pendingFlush, qs, disk, nreq, reqDef, logical, ncrash>>

\* start_background_threads; the handle is returned to the caller
AllContentIs(L) == \A t \in AllT : Content(t) = L[t]
WithReq(L, r) == [t \in AllT |-> IF HasChunk(r, t) THEN Append(L[t], r) ELSE L[t]]
RecUp ==
    /\ rec.pc = "replay" /\ rec.segs = {}
    /\ up' = TRUE
    /\ rec' = IdleRec
    /\ LET acked == UNION {Range(logical[t]) : t \in AllT}
           Cand == {r \in 1..nreq : r \notin acked /\ AllContentIs(WithReq(logical, r))}
       IN IF AllContentIs(logical) THEN UNCHANGED <<logical, broken>>
          ELSE IF Cand # {} THEN /\ logical' = WithReq(logical, CHOOSE r \in Cand : TRUE)
                                 /\ UNCHANGED broken
          ELSE /\ Fail("recovered content is neither the acknowledged requests nor those plus one whole in-flight request")
               /\ logical' = [t \in AllT |-> Content(t)]
    /\ UNCHANGED <<tabs, buffer, frozen, parts, nextPid, nextOff, colNames, ms, walAcct, walLock, ing, fl, pendingFlush, qs, disk, nreq, reqDef, ncrash>>

-----------------------------------------------------------------------------
(* Eviction: LocustDB::evict_cache / enforce_mem_limit drop cached columns of any partition the LRU knows *)
\* (a partition's columns enter the LRU once it is persisted and registered in the catalogue -
\* Table::register_pending_lru; with the deviation, as soon as it is inserted into the table)
Evict(t, id) ==
    /\ up /\ \E x \in parts[t] : x.id = id /\ ~x.cold
    /\ "EvictBeforePersist" \in Dev \/ \E m \in ms.parts : m.t = t /\ m.id = id
    /\ parts' = [parts EXCEPT ![t] = {IF x.id = id THEN [x EXCEPT !.cold = TRUE] ELSE x : x \in @}]
    /\ UNCHANGED <<up, tabs, buffer, frozen, nextPid, nextOff, colNames, ms, walAcct, walLock, ing, fl, pendingFlush, rec, qs, disk, histv>>

-----------------------------------------------------------------------------
IngestNext == \E c \in Clients :
    \/ IngestLock(c)
    \/ (\E sh \in Shapes : IngestCatalogue(c, sh)) \/ WalAssign(c) \/ WalStore(c) \/ WalTmpCreate(c) \/ WalTmpWrite(c) \/ WalRename(c)
    \/ \E t \in AllT : ApplyTable(c, t)
    \/ IngestAck(c)
FlushNext ==
    \/ FlushTrigger \/ FlushLock \/ (\E t \in AllT : FreezeTable(t)) \/ FlushFreeze
    \/ (\E t \in AllT : Batch(t) \/ Plan(t))
    \/ (\E p \in fl.newParts : MsInsert(p) \/ \E k \in SubKeys : PersistSub(p, k))
    \/ (\E pl \in fl.plans : CompactNames(pl) \/ CompactSwap(pl) \/ CompactMs(pl) \/ \E k \in SubKeys : CompactPersist(pl, k))
    \/ PersistMeta \/ MetaAdvance \/ MetaWrite \/ MetaRename
    \/ (\E f \in fl.toDelete : DeleteOrphan(f))
    \/ (\E id \in fl.todo : fl.pc = "meta" /\ DeleteWal(id)) \/ FlushDone
QueryNext == \E q \in QClients :
    \/ \E t \in AllT : QuerySnapshot(q, t)
    \/ (\E p \in qs[q].todo : QueryRead(q, p)) \/ QueryDone(q)
RecNext == RecLoadMeta \/ (\E w \in rec.todoWal : RecWal(w)) \/ RecTables \/ RecReplay \/ RecUp
EvictNext == \E t \in AllT : \E x \in parts[t] : Evict(t, x.id)

Next == IngestNext \/ ForceFlushCall \/ FlushNext \/ QueryNext \/ EvictNext \/ Crash \/ Shutdown \/ RecNext
Spec == Init /\ [][Next]_vars

-----------------------------------------------------------------------------
(* Properties *)

\* requests applied to table t by an ingestion that has not been acknowledged yet
AppliedInflight(t) ==
    LET cs == {c \in Clients : ing[c].pc = "catalogued" /\ HasChunk(ing[c].req, t) /\ t \notin ing[c].toApply}
    IN IF cs = {} THEN <<>> ELSE <<ing[CHOOSE c \in cs : TRUE].req>>

\* C07 / C02 / C10: at every instant a snapshot of a table is the acknowledged history, possibly
\* followed by the whole chunk of the request being ingested; partitions tile [0, n)
ContentOK == up => \A t \in AllT : Content(t) = logical[t] \o AppliedInflight(t)
Tiles == up => \A t \in AllT : LET sq == ByOff(parts[t]) IN
            /\ \A i \in 1..Len(sq) : sq[i].off = (IF i = 1 THEN 0 ELSE sq[i-1].off + sq[i-1].len)
            /\ \A i \in 1..Len(sq) : sq[i].len = SumRows(t, sq[i].reqs)
            /\ nextOff[t] = (IF sq = <<>> THEN 0 ELSE sq[Len(sq)].off + sq[Len(sq)].len) + SumRows(t, frozen[t]) * (IF t \in fl.batched THEN 0 ELSE 0)
\* no column of a chunk is lost by the partition that holds it (C13: compaction carries every column over)
ColumnsKept == up => \A t \in AllT : \A p \in parts[t] : KeysOfReqs(t, p.reqs) \subseteq p.pcols
\* C13: the catalogue names every table and every column exactly once
EverTables == {t \in AllT \ {MT} : logical[t] # <<>>}
RECURSIVE BagOfNames(_, _)
BagOfNames(t, sq) == IF sq = <<>> THEN <<>> ELSE SetToSeq(ChunkOf(Head(sq), t).names) \o BagOfNames(t, Tail(sq))
NoDup(sq) == Cardinality(Range(sq)) = Len(sq)
CatalogueExactlyOnce ==
    /\ NoDup(BagOfNames(MT, logical[MT]))
    /\ Range(BagOfNames(MT, logical[MT])) = EverTables
    /\ \A t \in UT : /\ NoDup(BagOfNames(MC(t), logical[MC(t)]))
                      /\ Range(BagOfNames(MC(t), logical[MC(t)])) = KeysOfReqs(t, logical[t])
NoFailure == broken = ""

\* C08 / C09: what is on disk always recovers to the acknowledged content (plus in-flight whole);
\* stated on the disk state so that it is checked in every state, not only after a Crash step
DiskParts == IF dMeta.exists THEN dMeta.parts ELSE {}
DiskCursor == IF dMeta.exists THEN dMeta.earliest ELSE 0
LiveWal == {w \in dWal : w.id >= DiskCursor}
RECURSIVE WalReqs(_, _)
WalReqs(t, S) == IF S = {} THEN <<>>
                 ELSE LET w == CHOOSE x \in S : \A y \in S : x.id <= y.id
                      IN (IF HasChunk(w.req, t) THEN <<w.req>> ELSE <<>>) \o WalReqs(t, S \ {w})
DiskContent(t) == FlatReqs(ByOff({p \in DiskParts : p.t = t})) \o WalReqs(t, LiveWal)
DiskFilesPresent == FilesOf(DiskParts) \subseteq dPart
WalContiguous == \A w \in LiveWal : w.id = DiskCursor \/ \E v \in LiveWal : v.id = w.id - 1
\* holds whenever no recovery is rewriting `logical` (up or down, before RecUp adopts an in-flight request)
Durable ==
    LET acked == UNION {Range(logical[t]) : t \in AllT}
        extra == {w.req : w \in LiveWal} \ acked
    IN /\ DiskFilesPresent
       /\ Cardinality(extra) <= 1
       /\ \A t \in AllT : DiskContent(t) = logical[t] \o (IF \E r \in extra : HasChunk(r, t) THEN <<CHOOSE r \in extra : TRUE>> ELSE <<>>)

\* C18: when a flush has completed and nothing else is running
QuiescentDisk ==
    (up /\ Quiet /\ \A t \in AllT : buffer[t] = <<>>) =>
        /\ dWal = {} /\ dTmp = {} /\ walAcct = 0
        /\ dPart = FilesOf(DiskParts)
        /\ dMeta.exists => dMeta.parts = ms.parts
\* the accounted log size is the number of live segments
WalAccounting == (up /\ walLock = "free" /\ fl.pc \in {"idle", "triggered"}) => walAcct = ms.next - ms.earliest

TypeOK == /\ walLock \in {"free", "flush"} \cup Clients
          /\ tabs \subseteq AllT
=============================================================================
