----------------------------- MODULE SqlGrammar -----------------------------
(***************************************************************************)
(* The query strings of C12 as token sequences: derivations of the        *)
(* supported subset with the expected classification and column names,    *)
(* every construct the SQL parser accepts but LocustDB must refuse, and    *)
(* single token edits (delete / duplicate / transpose / replace by a       *)
(* hostile token) of seed statements.  Contract of the result shape:       *)
(*   ok    -> a result with exactly these column names in this order       *)
(*   error -> an error value (no panic, no lost answer)                    *)
(*   any   -> either, but never a panic / hang, and a result is well-formed*)
(***************************************************************************)
EXTENDS Integers, Sequences, FiniteSets, TLC

\* select items: [toks, name]   (name = the column name the answer must carry)
Items == { [toks |-> <<"a">>, name |-> "a"],
           [toks |-> <<"s">>, name |-> "s"],
           [toks |-> <<"n">>, name |-> "n"],
           [toks |-> <<"no_such_col">>, name |-> "no_such_col"],
           [toks |-> <<"a", "AS", "x1">>, name |-> "x1"],
           [toks |-> <<"a", "x2">>, name |-> "x2"],
           [toks |-> <<"\"a\"">>, name |-> "a"],
           [toks |-> <<"`s`">>, name |-> "s"],
           [toks |-> <<"a", "+", "1", "AS", "e">>, name |-> "e"],
           [toks |-> <<"a", "*", "2", "-", "1", "AS", "f2">>, name |-> "f2"],
           [toks |-> <<"COUNT", "(", "1", ")", "AS", "c">>, name |-> "c"],
           [toks |-> <<"SUM", "(", "a", ")", "AS", "sm">>, name |-> "sm"],
           [toks |-> <<"MAX", "(", "n", ")", "AS", "mx">>, name |-> "mx"],
           [toks |-> <<"length", "(", "s", ")", "AS", "ln">>, name |-> "ln"],
           [toks |-> <<"-", "5", "AS", "neg">>, name |-> "neg"],
           [toks |-> <<"1.5", "AS", "fr">>, name |-> "fr"],
           [toks |-> <<"'lit'", "AS", "st">>, name |-> "st"] }
Froms == { [toks |-> <<"t">>, cls |-> "ok"], [toks |-> <<"\"t\"">>, cls |-> "ok"], [toks |-> <<"no_such_table">>, cls |-> "error"] }
Wheres == { <<>>, <<"WHERE", "a", ">", "1">>, <<"WHERE", "s", "=", "'s1'">>, <<"WHERE", "n", "IS", "NULL">>, <<"WHERE", "a", "<", "3", "AND", "s", "<>", "'zz'">>,
            <<"WHERE", "s", "LIKE", "'s%'">>, <<"WHERE", "no_such_col", "=", "1">>, <<"WHERE", "a", ">", "-", "2">>, <<"WHERE", "a", ">", "0.5">> }
Orders == { <<>>, <<"ORDER", "BY", "a">>, <<"ORDER", "BY", "s", "DESC">>, <<"ORDER", "BY", "a", "DESC", ",", "s">> }
\* LIMIT / OFFSET literal forms with the class they force
Limits == { [toks |-> <<>>, cls |-> "ok"], [toks |-> <<"LIMIT", "0">>, cls |-> "ok"], [toks |-> <<"LIMIT", "2">>, cls |-> "ok"], [toks |-> <<"LIMIT", "100000">>, cls |-> "ok"],
            [toks |-> <<"LIMIT", "2", "OFFSET", "1">>, cls |-> "ok"], [toks |-> <<"LIMIT", "1", "OFFSET", "100">>, cls |-> "ok"], [toks |-> <<"OFFSET", "1">>, cls |-> "ok"],
            [toks |-> <<"LIMIT", "1.5">>, cls |-> "error"], [toks |-> <<"LIMIT", "1e3">>, cls |-> "error"], [toks |-> <<"LIMIT", "99999999999999999999">>, cls |-> "error"],
            [toks |-> <<"LIMIT", "-", "1">>, cls |-> "error"], [toks |-> <<"LIMIT", "2", "OFFSET", "1.5">>, cls |-> "error"], [toks |-> <<"LIMIT", "18446744073709551615">>, cls |-> "ok"],
            [toks |-> <<"LIMIT", "2", "OFFSET", "18446744073709551615">>, cls |-> "ok"] }

RECURSIVE Join(_, _)
Join(sq, sep) == IF sq = <<>> THEN <<>> ELSE IF Len(sq) = 1 THEN Head(sq) ELSE Head(sq) \o sep \o Join(Tail(sq), sep)
Worst(a, b) == IF a = "error" \/ b = "error" THEN "error" ELSE "ok"

\* aggregates and plain expressions may be mixed (grouping by the plain ones); a statement is a record
Stmt(items, from, where, order, limit) ==
    [toks |-> <<"SELECT">> \o Join([i \in 1..Len(items) |-> items[i].toks], <<",">>) \o <<"FROM">> \o from.toks \o where \o order \o limit.toks,
     cls |-> Worst(from.cls, limit.cls),
     names |-> [i \in 1..Len(items) |-> items[i].name]]

\* constructs the SQL parser accepts and LocustDB must refuse with an error value
Refused == { <<"SELECT", "a", "FROM", "t", "JOIN", "t", "AS", "u", "ON", "t", ".", "a", "=", "u", ".", "a">>,
             <<"SELECT", "a", "FROM", "t", "GROUP", "BY", "a">>,
             <<"SELECT", "a", ",", "COUNT", "(", "1", ")", "FROM", "t", "GROUP", "BY", "a", "HAVING", "COUNT", "(", "1", ")", ">", "1">>,
             <<"SELECT", "DISTINCT", "a", "FROM", "t">>,
             <<"SELECT", "a", "FROM", "(", "SELECT", "a", "FROM", "t", ")">>,
             <<"SELECT", "a", "FROM", "t", "WHERE", "a", "IN", "(", "1", ",", "2", ")">>,
             <<"SELECT", "a", "FROM", "t", "WHERE", "a", "BETWEEN", "1", "AND", "2">>,
             <<"SELECT", "CASE", "WHEN", "a", ">", "1", "THEN", "1", "ELSE", "0", "END", "FROM", "t">>,
             <<"SELECT", "a", "FROM", "t", "UNION", "SELECT", "a", "FROM", "t">>,
             <<"SELECT", "a", "FROM", "t", ";", "SELECT", "s", "FROM", "t">>,
             <<"INSERT", "INTO", "t", "VALUES", "(", "1", ")">>, <<"DELETE", "FROM", "t">>, <<"UPDATE", "t", "SET", "a", "=", "1">>,
             <<"CREATE", "TABLE", "u", "(", "a", "INT", ")">>, <<"DROP", "TABLE", "t">>,
             <<"SELECT", "a", "FROM", "t", ",", "t">>, <<"SELECT", "a", "FROM", "t", "WHERE", "EXISTS", "(", "SELECT", "1", ")">>,
             <<"SELECT", "a", "FROM", "t", "WHERE", "a", "=", "(", "SELECT", "MAX", "(", "a", ")", "FROM", "t", ")">>,
             <<"SELECT", "a", "FROM", "t", "LIMIT", "a">>, <<"SELECT", "CAST", "(", "a", "AS", "TEXT", ")", "FROM", "t">>,
             <<"WITH", "w", "AS", "(", "SELECT", "a", "FROM", "t", ")", "SELECT", "a", "FROM", "w">>,
             <<"SELECT", "a", "FROM", "t", "ORDER", "BY", "a", "NULLS", "FIRST">>, <<"SELECT", "t", ".", "*", "FROM", "t">>,
             <<"SELECT", "COUNT", "(", "DISTINCT", "a", ")", "FROM", "t">>, <<"SELECT", "a", "FROM", "t", "FETCH", "FIRST", "2", "ROWS", "ONLY">>,
             <<"SELECT">>, <<>>, <<"SELECT", "FROM", "t">>, <<"SELECT", "a", "FROM">>, <<"SELECT", "a", "t">> }

Hostile == {"'", "\"", "`", "(", ")", ";", "--", "/*", "NULL", "SELECT", "FROM", "*", ",", "0", "-", "1e400", "0x10", "''", "\\", "%", "é", "t.t.t", "9223372036854775808", "NaN", "$1", "?"}

\* single token edits of a token sequence
Deletes(ts) == {SubSeq(ts, 1, i - 1) \o SubSeq(ts, i + 1, Len(ts)) : i \in 1..Len(ts)}
Dups(ts) == {SubSeq(ts, 1, i) \o SubSeq(ts, i, Len(ts)) : i \in 1..Len(ts)}
Swaps(ts) == {SubSeq(ts, 1, i - 1) \o <<ts[i + 1], ts[i]>> \o SubSeq(ts, i + 2, Len(ts)) : i \in 1..(Len(ts) - 1)}
Replaces(ts) == {SubSeq(ts, 1, i - 1) \o <<h>> \o SubSeq(ts, i + 1, Len(ts)) : i \in 1..Len(ts), h \in Hostile}
Inserts(ts) == {SubSeq(ts, 1, i) \o <<h>> \o SubSeq(ts, i + 1, Len(ts)) : i \in 0..Len(ts), h \in Hostile}
Edits(ts) == Deletes(ts) \cup Dups(ts) \cup Swaps(ts) \cup Replaces(ts) \cup Inserts(ts)
=============================================================================
