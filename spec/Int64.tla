------------------------------- MODULE Int64 -------------------------------
(***************************************************************************)
(* Exact integer arithmetic beyond TLC's 32-bit integers: a number is a    *)
(* sign and a little-endian sequence of 15-bit limbs (no leading zero      *)
(* limb; zero is the empty sequence).  Used as the oracle for C06: the     *)
(* mathematically exact value of +, -, *, / (truncating), % (sign of the   *)
(* dividend) and of sums, and whether it fits a signed 64-bit integer.     *)
(***************************************************************************)
EXTENDS Integers, Sequences, TLC

B == 32768

Norm(m) == LET RECURSIVE N(_) N(s) == IF s # <<>> /\ s[Len(s)] = 0 THEN N(SubSeq(s, 1, Len(s) - 1)) ELSE s IN N(m)
Limb(m, i) == IF i <= Len(m) THEN m[i] ELSE 0
MaxLen(a, b) == IF Len(a) > Len(b) THEN Len(a) ELSE Len(b)

RECURSIVE MagCmpFrom(_, _, _)
MagCmpFrom(a, b, i) == IF i = 0 THEN 0 ELSE IF Limb(a, i) > Limb(b, i) THEN 1 ELSE IF Limb(a, i) < Limb(b, i) THEN -1 ELSE MagCmpFrom(a, b, i - 1)
MagCmp(a, b) == MagCmpFrom(a, b, MaxLen(a, b))

RECURSIVE AddFrom(_, _, _, _, _)
AddFrom(a, b, i, carry, n) == IF i > n THEN (IF carry = 0 THEN <<>> ELSE <<carry>>)
                              ELSE LET s == Limb(a, i) + Limb(b, i) + carry IN <<s % B>> \o AddFrom(a, b, i + 1, s \div B, n)
MagAdd(a, b) == Norm(AddFrom(a, b, 1, 0, MaxLen(a, b)))

\* a >= b
RECURSIVE SubFrom(_, _, _, _, _)
SubFrom(a, b, i, borrow, n) == IF i > n THEN <<>>
                               ELSE LET d == Limb(a, i) - Limb(b, i) - borrow IN
                                    IF d < 0 THEN <<d + B>> \o SubFrom(a, b, i + 1, 1, n) ELSE <<d>> \o SubFrom(a, b, i + 1, 0, n)
MagSub(a, b) == Norm(SubFrom(a, b, 1, 0, Len(a)))

\* a * (one limb) shifted by k limbs
RECURSIVE MulLimbFrom(_, _, _, _)
MulLimbFrom(a, l, i, carry) == IF i > Len(a) THEN (IF carry = 0 THEN <<>> ELSE <<carry>>)
                               ELSE LET p == a[i] * l + carry IN <<p % B>> \o MulLimbFrom(a, l, i + 1, p \div B)
Zeros(k) == [j \in 1..k |-> 0]
RECURSIVE MulFrom(_, _, _)
MulFrom(a, b, j) == IF j > Len(b) THEN <<>> ELSE MagAdd(Zeros(j - 1) \o MulLimbFrom(a, b[j], 1, 0), MulFrom(a, b, j + 1))
MagMul(a, b) == IF a = <<>> \/ b = <<>> THEN <<>> ELSE Norm(MulFrom(a, b, 1))

\* binary long division on magnitudes: quotient and remainder
Double(m) == MagAdd(m, m)
Bit(m, k) == (Limb(m, (k \div 15) + 1) \div (2 ^ (k % 15))) % 2
RECURSIVE DivStep(_, _, _, _, _)
DivStep(a, b, k, q, r) ==
    IF k < 0 THEN [q |-> q, r |-> r]
    ELSE LET r1 == MagAdd(Double(r), IF Bit(a, k) = 1 THEN <<1>> ELSE <<>>)
             ge == MagCmp(r1, b) >= 0
         IN DivStep(a, b, k - 1, MagAdd(Double(q), IF ge THEN <<1>> ELSE <<>>), IF ge THEN MagSub(r1, b) ELSE r1)
MagDivMod(a, b) == DivStep(a, b, 15 * Len(a) - 1, <<>>, <<>>)

\* ---------------------------------------------------------------- signed numbers
Num(neg, mag) == [neg |-> (neg /\ mag # <<>>), mag |-> mag]
Zero == Num(FALSE, <<>>)
RECURSIVE NatMag(_)
NatMag(n) == IF n = 0 THEN <<>> ELSE <<n % B>> \o NatMag(n \div B)
FromInt(i) == IF i < 0 THEN Num(TRUE, NatMag(-i)) ELSE Num(FALSE, NatMag(i))
Pow2(k) == Num(FALSE, Zeros(k \div 15) \o <<2 ^ (k % 15)>>)
Neg(x) == Num(~x.neg, x.mag)
Add(x, y) == IF x.neg = y.neg THEN Num(x.neg, MagAdd(x.mag, y.mag))
             ELSE IF MagCmp(x.mag, y.mag) >= 0 THEN Num(x.neg, MagSub(x.mag, y.mag))
             ELSE Num(y.neg, MagSub(y.mag, x.mag))
Sub(x, y) == Add(x, Neg(y))
Mul(x, y) == Num(x.neg # y.neg, MagMul(x.mag, y.mag))
\* truncating division, remainder with the sign of the dividend (Rust / the engine)
Div(x, y) == Num(x.neg # y.neg, MagDivMod(x.mag, y.mag).q)
Mod(x, y) == Num(x.neg, MagDivMod(x.mag, y.mag).r)
Cmp(x, y) == IF x.neg # y.neg THEN (IF x.neg THEN -1 ELSE 1)
             ELSE IF x.neg THEN MagCmp(y.mag, x.mag) ELSE MagCmp(x.mag, y.mag)
IsZero(x) == x.mag = <<>>
I64Max == Sub(Pow2(63), FromInt(1))
I64Min == Neg(Pow2(63))
FitsI64(x) == Cmp(x, I64Min) >= 0 /\ Cmp(x, I64Max) <= 0

\* self-check against native arithmetic on small numbers (evaluated once per run)
SmallOK == \A a \in -40..40 : \A b \in -40..40 :
    /\ Add(FromInt(a * 977), FromInt(b * 1013)) = FromInt(a * 977 + b * 1013)
    /\ Sub(FromInt(a * 977), FromInt(b * 1013)) = FromInt(a * 977 - b * 1013)
    /\ Mul(FromInt(a * 977), FromInt(b * 1013)) = FromInt(a * 977 * b * 1013)
    /\ (b # 0 => LET q == IF (a * 977 < 0) # (b < 0) THEN -((IF a < 0 THEN -a * 977 ELSE a * 977) \div (IF b < 0 THEN -b ELSE b)) ELSE (IF a < 0 THEN -a * 977 ELSE a * 977) \div (IF b < 0 THEN -b ELSE b)
                 IN Div(FromInt(a * 977), FromInt(b)) = FromInt(q) /\ Mod(FromInt(a * 977), FromInt(b)) = FromInt(a * 977 - q * b))
ASSUME SmallOK
=============================================================================
