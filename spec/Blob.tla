-------------------------------- MODULE Blob --------------------------------
(***************************************************************************)
(* The envelope every stored file is wrapped in                            *)
(* (VersionedChecksummedBlobWriter): version, payload length, checksum,    *)
(* payload.  Cells are abstract symbols; H is an injective function from   *)
(* payloads to checksum values (the assumption made about SHA-256).        *)
(* Corruption actions: change one cell (bit flip), cut the file, append    *)
(* cells, replace the file by foreign content.  Required: loading a        *)
(* corrupted file either rejects it or returns exactly the original        *)
(* payload - never different data.                                         *)
(***************************************************************************)
EXTENDS Integers, Sequences, FiniteSets, TLC

CONSTANTS Sym,        \* payload symbols, e.g. 0..1
          MaxLen,     \* maximal payload length
          NoChecksum  \* model mutant: the loader does not compare the checksum

\* injective checksum: the payload read as a number in base |Sym|+1, offset so that it never collides with small cells
RECURSIVE HNum(_)
HNum(p) == IF p = <<>> THEN 1 ELSE (Head(p) + 1) + (Cardinality(Sym) + 1) * HNum(Tail(p))
H(p) == 100 + HNum(p)

Payloads == UNION {[1..n -> Sym] : n \in 0..MaxLen}
Store(p) == <<0, Len(p), H(p)>> \o p          \* version 0, length, checksum, payload

Reject == [ok |-> FALSE, p |-> <<>>]
\* VersionedChecksummedBlobWriter::load
Load(f) ==
    IF Len(f) < 3 THEN Reject
    ELSE IF f[1] # 0 THEN Reject
    ELSE IF f[2] # Len(f) - 3 THEN Reject
    ELSE IF ~NoChecksum /\ f[3] # H(SubSeq(f, 4, Len(f))) THEN Reject
    ELSE [ok |-> TRUE, p |-> SubSeq(f, 4, Len(f))]

Region(f, i) == CASE i = 1 -> "version" [] i = 2 -> "length" [] i = 3 -> "checksum" [] OTHER -> "payload"
\* every value a single cell can be changed to: other symbols, other lengths, checksums of other payloads, another version
CellVals == Sym \cup (0..(MaxLen + 2)) \cup {H(p) : p \in Payloads} \cup {1, 7}
Flips(f) == {[f EXCEPT ![i] = v] : i \in 1..Len(f), v \in CellVals}
Cuts(f) == {SubSeq(f, 1, n) : n \in 0..(Len(f) - 1)}
Appends(f) == {f \o <<a>> : a \in CellVals} \cup {f \o <<a, b>> : a \in Sym, b \in Sym}
Foreign == {<<>>, <<1>>, <<0, 0>>, <<5, 5, 5, 5>>}
Corruptions(f) == (Flips(f) \cup Cuts(f) \cup Appends(f) \cup Foreign) \ {f}

\* never different data
Safe(p) == \A c \in Corruptions(Store(p)) : ~Load(c).ok \/ Load(c).p = p
RoundTrip(p) == Load(Store(p)).ok /\ Load(Store(p)).p = p
=============================================================================
