----------------------------- MODULE WireBuffer -----------------------------
(***************************************************************************)
(* The column state machine of the client-side row API                    *)
(* (locustdb-serialization event_buffer.rs, ColumnBuffer::push):           *)
(*   Empty -> Dense | Sparse | I64 | SparseI64 | String,                   *)
(*   Dense -> Sparse, I64 -> SparseI64, I64 -> Dense, SparseI64 -> Sparse, *)
(* ints are promoted to floats once the column is a float column, NULL     *)
(* and "column not mentioned in the row" push nothing; the corners the     *)
(* API refuses (a string into a numeric column, a number into a string    *)
(* column, a string after a gap) are an explicit Unsupported outcome.      *)
(* The logical column a server must decode: one cell per row, NULL where   *)
(* nothing was pushed.                                                     *)
(***************************************************************************)
EXTENDS Integers, Sequences, FiniteSets, TLC

Kinds == {"int", "float", "str", "null", "absent"}

\* state: [v |-> variant, n |-> number of stored entries, rows |-> rows pushed so far (table length),
\*         cells |-> logical cells so far, bad |-> BOOLEAN]
Init0 == [v |-> "Empty", n |-> 0, cells |-> <<>>, bad |-> FALSE]

\* push the cell of row `len` (0-based index = number of rows before)
PushCell(s, k) ==
    LET len == Len(s.cells) IN
    IF s.bad THEN s
    ELSE IF k \in {"null", "absent"} THEN [s EXCEPT !.cells = Append(@, "null")]
    ELSE CASE s.v = "Empty" ->
                 IF k = "float" THEN [s EXCEPT !.v = IF len = 0 THEN "Dense" ELSE "Sparse", !.n = 1, !.cells = Append(@, "float")]
                 ELSE IF k = "int" THEN [s EXCEPT !.v = IF len = 0 THEN "I64" ELSE "SparseI64", !.n = 1, !.cells = Append(@, "int")]
                 ELSE IF len = 0 THEN [s EXCEPT !.v = "String", !.n = 1, !.cells = Append(@, "str")] ELSE [s EXCEPT !.bad = TRUE]
           [] s.v = "Dense" ->
                 IF k = "str" THEN [s EXCEPT !.bad = TRUE]
                 ELSE [s EXCEPT !.v = IF s.n = len THEN "Dense" ELSE "Sparse", !.n = @ + 1, !.cells = Append(@, "float")]   \* ints are promoted
           [] s.v = "Sparse" -> IF k = "str" THEN [s EXCEPT !.bad = TRUE] ELSE [s EXCEPT !.n = @ + 1, !.cells = Append(@, "float")]
           [] s.v = "I64" ->
                 IF k = "str" THEN [s EXCEPT !.bad = TRUE]
                 ELSE IF k = "int" THEN [s EXCEPT !.v = IF s.n = len THEN "I64" ELSE "SparseI64", !.n = @ + 1, !.cells = Append(@, "int")]
                 \* a float arrives: every stored int becomes a float
                 ELSE [s EXCEPT !.v = IF s.n = len THEN "Dense" ELSE "Sparse", !.n = @ + 1,
                                !.cells = Append([i \in 1..Len(s.cells) |-> IF s.cells[i] = "int" THEN "float" ELSE s.cells[i]], "float")]
           [] s.v = "SparseI64" ->
                 IF k = "str" THEN [s EXCEPT !.bad = TRUE]
                 ELSE IF k = "int" THEN [s EXCEPT !.n = @ + 1, !.cells = Append(@, "int")]
                 ELSE [s EXCEPT !.v = "Sparse", !.n = @ + 1,
                                !.cells = Append([i \in 1..Len(s.cells) |-> IF s.cells[i] = "int" THEN "float" ELSE s.cells[i]], "float")]
           [] s.v = "String" ->
                 IF k = "str" /\ s.n = len THEN [s EXCEPT !.n = @ + 1, !.cells = Append(@, "str")] ELSE [s EXCEPT !.bad = TRUE]

RECURSIVE Run(_, _)
Run(s, hist) == IF hist = <<>> THEN s ELSE Run(PushCell(s, Head(hist)), Tail(hist))
\* the stored representation holds exactly the non-NULL cells, and the dense variants hold them as a prefix of
\* the rows (the rest of the table is padded with NULL by the server: InputColumn::from_column_data)
Sound(s) == s.bad \/ ( /\ s.n = Cardinality({i \in 1..Len(s.cells) : s.cells[i] # "null"})
                        /\ (s.v \in {"Dense", "I64", "String"} => \A i \in 1..s.n : s.cells[i] # "null")
                        /\ (s.v = "Empty" <=> s.n = 0)
                        /\ (s.v \in {"Dense", "Sparse"} => \A i \in 1..Len(s.cells) : s.cells[i] \in {"float", "null"})
                        /\ (s.v \in {"I64", "SparseI64"} => \A i \in 1..Len(s.cells) : s.cells[i] \in {"int", "null"})
                        /\ (s.v = "String" => \A i \in 1..Len(s.cells) : s.cells[i] \in {"str", "null"}) )
=============================================================================
