---------------------------- MODULE Subpartition ----------------------------
(***************************************************************************)
(* How the columns of one partition are distributed over files and found  *)
(* again (InnerLocustDB::subpartition, PartitionMetadata::subpartition_key, *)
(* partition_filename, sanitize_table_name).                               *)
(* Column names are positions in a totally ordered pool (the harness maps  *)
(* them to concrete names in byte order: digits, upper / lower case pairs, *)
(* a name that is a proper prefix of another, a name longer than 64 bytes, *)
(* a non-ASCII name).  Columns are taken in name order and packed greedily *)
(* into files of at most Limit bytes (a column larger than the limit gets  *)
(* a file of its own); a file is identified by its last column; a column   *)
(* is looked up in the first file whose last column is >= its name.        *)
(***************************************************************************)
EXTENDS Integers, Sequences, FiniteSets, TLC, SequencesExt, FiniteSetsExt

\* cols: sorted sequence of names; size: [name -> Nat]
RECURSIVE Pack(_, _, _, _, _)
Pack(cols, size, limit, cur, bytes) ==
    IF cols = <<>> THEN <<cur>>
    ELSE LET c == Head(cols) IN
         IF bytes + size[c] > limit /\ cur # <<>>
           THEN <<cur>> \o Pack(Tail(cols), size, limit, <<c>>, size[c])
           ELSE Pack(Tail(cols), size, limit, Append(cur, c), bytes + size[c])
Split(cols, size, limit) == Pack(cols, size, limit, <<>>, 0)

\* index of the file a name is looked up in (0: none - the column is recognised as absent)
Route(groups, name) ==
    LET cand == {i \in 1..Len(groups) : Last(groups[i]) >= name}
    IN IF cand = {} THEN 0 ELSE Min(cand)
Holds(g, name) == \E j \in 1..Len(g) : g[j] = name

Flatten(gs) == IF gs = <<>> THEN <<>> ELSE FoldLeft(LAMBDA acc, g : acc \o g, <<>>, gs)

\* C15: every stored column is found in the file it was written to; a name that was not stored is never found
RoutingOK(cols, size, limit, pool) ==
    LET groups == Split(cols, size, limit) IN
    /\ \A i \in 1..Len(cols) : Route(groups, cols[i]) # 0 /\ Holds(groups[Route(groups, cols[i])], cols[i])
    /\ \A n \in pool : (~\E i \in 1..Len(cols) : cols[i] = n) =>
            (Route(groups, n) = 0 \/ ~Holds(groups[Route(groups, n)], n))
    /\ \A i, j \in 1..Len(groups) : i # j => Last(groups[i]) # Last(groups[j])      \* file keys are distinct
    /\ Len(groups) >= 1 /\ \A i \in 1..Len(groups) : groups[i] # <<>>
    /\ Flatten(groups) = cols

=============================================================================
