-------------------------------- MODULE Http --------------------------------
(***************************************************************************)
(* The HTTP front end (src/server/mod.rs) as a thin, stateless layer over  *)
(* one embedded database shared by all handlers (AppState.db):             *)
(*   - clients hold at most one outstanding request each (a connection of  *)
(*     the pool); requests in flight are served in any order,              *)
(*   - insert_bin deserialises the message and appends the batch to the    *)
(*     embedded database (Serve of an insert = LocustDB::ingest_efficient),*)
(*   - a query handler runs the query on the embedded database at the      *)
(*     moment it is served and renders the outcome: the answer of the      *)
(*     embedded API for a succeeding query (JSON rows, JSON columns, or    *)
(*     the binary response with or without float compression), an HTTP     *)
(*     error status for a failing one (map_err_response),                  *)
(*   - every request is answered and the server keeps serving.             *)
(* The data model is abstract: the database is the number of batches       *)
(* ingested so far; what a succeeding query returns is a function of that  *)
(* number (the harness concretises: embedded run_query on the same         *)
(* Arc<LocustDB>).                                                         *)
(* Dev = {"QueryEndpointUnwraps"} is the behaviour of the pinned code that *)
(* was repaired: POST /query unwrapped the query result, so a failing      *)
(* query killed the handler and the client saw no HTTP status.             *)
(***************************************************************************)
EXTENDS Integers, Sequences, FiniteSets, TLC

CONSTANTS Clients,        \* connections of the pool
          MaxInserts,     \* batches that may be sent
          MaxReqs,        \* requests per behaviour
          MaxStatements,  \* statements per multi-query request
          Dev

Endpoints == {"query", "query_cols", "multi_json", "multi_bin", "multi_xor"}
\* outcome classes of a query on the embedded API
Outcomes == {"ok", "parse_error", "type_error", "not_implemented", "fatal"}
StatusOf(o) == CASE o = "ok" -> 200
                 [] o = "not_implemented" -> 501
                 [] o = "fatal" -> 500
                 [] OTHER -> 400

VARIABLES applied,     \* batches ingested by the embedded database
          sent,        \* batches sent by clients so far
          acked,       \* insert requests answered so far
          inflight,    \* client -> request record or None
          hist,        \* answered requests, in the order the answers arrived
          nreq,
          alive

vars == <<applied, sent, acked, inflight, hist, nreq, alive>>
None == [kind |-> "none"]

Init == /\ applied = 0 /\ sent = 0 /\ acked = 0
        /\ inflight = [c \in Clients |-> None]
        /\ hist = <<>> /\ nreq = 0 /\ alive = TRUE

SendInsert(c) ==
    /\ alive /\ inflight[c] = None /\ sent < MaxInserts /\ nreq < MaxReqs
    /\ inflight' = [inflight EXCEPT ![c] = [kind |-> "insert", batch |-> sent + 1, served |-> FALSE, nq |-> 0, na |-> 0,
                                            lo |-> acked, status |-> 0, snap |-> -1]]
    /\ sent' = sent + 1 /\ nreq' = nreq + 1
    /\ UNCHANGED <<applied, acked, hist, alive>>

\* nq: number of statements in the request (the multi endpoints take a list and answer it position by position;
\* o is the outcome class of the request: "ok" when every statement succeeds, else that of the first failing one)
SendQuery(c, ep, o, nq) ==
    /\ alive /\ inflight[c] = None /\ nreq < MaxReqs
    /\ (ep \in {"query", "query_cols"} => nq = 1)
    \* lo: batches acknowledged before the query was sent (they must be visible)
    /\ inflight' = [inflight EXCEPT ![c] = [kind |-> "query", ep |-> ep, outcome |-> o, served |-> FALSE, nq |-> nq, na |-> 0,
                                            lo |-> acked, status |-> 0, snap |-> -1]]
    /\ nreq' = nreq + 1
    /\ UNCHANGED <<applied, sent, acked, hist, alive>>

\* the handler runs: one atomic step against the embedded database
Serve(c) ==
    /\ alive /\ inflight[c] # None /\ ~inflight[c].served
    /\ LET r == inflight[c] IN
       IF r.kind = "insert"
         THEN /\ applied' = applied + 1
              /\ inflight' = [inflight EXCEPT ![c] = [r EXCEPT !.served = TRUE, !.status = 200, !.snap = applied + 1]]
         ELSE /\ applied' = applied
              /\ inflight' = [inflight EXCEPT ![c] =
                    [r EXCEPT !.served = TRUE, !.snap = applied,
                              \* one answer per statement, in request order
                              !.na = IF r.outcome = "ok" THEN r.nq ELSE 0,
                              !.status = IF "QueryEndpointUnwraps" \in Dev /\ r.ep = "query" /\ r.outcome # "ok"
                                           THEN 0     \* the handler dies: no HTTP status reaches the client
                                           ELSE StatusOf(r.outcome)]]
    /\ UNCHANGED <<sent, acked, hist, nreq, alive>>

Receive(c) ==
    /\ inflight[c] # None /\ inflight[c].served
    /\ hist' = Append(hist, [c |-> c, r |-> inflight[c], hi |-> sent])
    /\ acked' = IF inflight[c].kind = "insert" THEN acked + 1 ELSE acked
    /\ inflight' = [inflight EXCEPT ![c] = None]
    /\ UNCHANGED <<applied, sent, nreq, alive>>

Next == \E c \in Clients :
          \/ SendInsert(c)
          \/ \E ep \in Endpoints, o \in Outcomes, nq \in 1..MaxStatements : SendQuery(c, ep, o, nq)
          \/ Serve(c)
          \/ Receive(c)
Spec == Init /\ [][Next]_vars /\ WF_vars(\E c \in Clients : Serve(c) \/ Receive(c))

\* ------------------------------------------------------------------ properties
\* a succeeding query is answered 200 with the embedded answer on a state that contains every batch acknowledged
\* before it was sent and nothing that was not yet sent when the answer arrived
AnswersOK == \A i \in 1..Len(hist) :
    LET h == hist[i] IN
      h.r.kind = "query" =>
        /\ h.r.lo <= h.r.snap /\ h.r.snap <= h.hi
        /\ (h.r.outcome = "ok" <=> h.r.status = 200)
        /\ (h.r.status = 200 => h.r.na = h.r.nq)
\* a failing query maps to an HTTP error status (and not to a dropped connection)
ErrorsMapped == \A i \in 1..Len(hist) :
    hist[i].r.kind = "query" /\ hist[i].r.outcome # "ok" => hist[i].r.status \in {400, 500, 501}
InsertsOK == \A i \in 1..Len(hist) : hist[i].r.kind = "insert" => hist[i].r.status = 200
\* nothing is ingested twice or lost: the database holds exactly the served inserts
Accounting == applied <= sent /\ acked <= applied
StaysAlive == alive
\* the server keeps answering: every request in flight is eventually answered
Answered == \A c \in Clients : (inflight[c] # None) ~> (inflight[c] = None)
=============================================================================
