----------------------------- MODULE Scheduler -----------------------------
(***************************************************************************)
(* The task queue of InnerLocustDB: schedule / await_task / worker_loop,  *)
(* and the life of a QueryTask (partitions claimed through batch_index by *)
(* up to max_parallelism workers, results pushed under the state lock,    *)
(* the answer sent exactly once through the SharedSender; a partition     *)
(* that fails makes the task complete with an error - fail_with).         *)
(* A failing request is an ordinary step (an error value is sent); there  *)
(* is no "worker dies" step: the properties say that none is needed.      *)
(***************************************************************************)
EXTENDS Integers, Sequences, FiniteSets, TLC

CONSTANTS Workers,   \* worker threads
          Tasks,     \* query tasks that clients may schedule
          NPart,     \* [Tasks -> 0..k] number of partitions in the task's snapshot
          FailAt,    \* [Tasks -> 0..k] 0: every partition succeeds; i: evaluating partition i fails
          NoNotify   \* model mutant: schedule() does not wake a sleeping worker

VARIABLES queue,        \* Seq of [t, par]    InnerLocustDB.task_queue
          ws,           \* [Workers -> "idle" | "waiting" | "woken" | "running" | "finishing"]
          wt,           \* [Workers -> task being executed]
          wlocal,       \* [Workers -> number of partitions this worker has evaluated for its task]
          scheduled,    \* [Tasks -> BOOLEAN]
          batchIndex,   \* [Tasks -> Nat]     QueryTask.batch_index
          doneBatches,  \* [Tasks -> Nat]     QueryState.completed_batches
          completed,    \* [Tasks -> BOOLEAN] QueryTask.completed
          sent          \* [Tasks -> Nat]     answers delivered to the caller (Ok or Err)
vars == <<queue, ws, wt, wlocal, scheduled, batchIndex, doneBatches, completed, sent>>

NoTask == "none"
Init == /\ queue = <<>> /\ ws = [w \in Workers |-> "idle"] /\ wt = [w \in Workers |-> NoTask]
        /\ wlocal = [w \in Workers |-> 0]
        /\ scheduled = [t \in Tasks |-> FALSE] /\ batchIndex = [t \in Tasks |-> 0]
        /\ doneBatches = [t \in Tasks |-> 0] /\ completed = [t \in Tasks |-> FALSE] /\ sent = [t \in Tasks |-> 0]

\* Task::completed for a QueryTask
TaskCompleted(t) == completed[t] \/ batchIndex[t] >= NPart[t]

\* Condvar::notify_one: some waiting worker (if there is one) is woken and will re-acquire the queue lock
NotifyOne(wsNow) == IF \E w \in Workers : wsNow[w] = "waiting"
                      THEN \E w \in {x \in Workers : wsNow[x] = "waiting"} : ws' = [wsNow EXCEPT ![w] = "woken"]
                      ELSE ws' = wsNow

\* LocustDB::run_query -> QueryTask::new (answers at once when the snapshot is empty) -> InnerLocustDB::schedule
Schedule(t) ==
    /\ ~scheduled[t]
    /\ scheduled' = [scheduled EXCEPT ![t] = TRUE]
    /\ sent' = IF NPart[t] = 0 THEN [sent EXCEPT ![t] = 1] ELSE sent
    /\ queue' = Append(queue, [t |-> t, par |-> NPart[t]])
    /\ IF NoNotify THEN ws' = ws ELSE NotifyOne(ws)
    /\ UNCHANGED <<wt, wlocal, batchIndex, doneBatches, completed>>

\* await_task, holding the queue lock
Await(w) ==
    /\ ws[w] \in {"idle", "woken"}
    /\ IF queue = <<>>
         THEN /\ ws' = [ws EXCEPT ![w] = "waiting"]
              /\ UNCHANGED <<queue, wt, wlocal>>
         ELSE LET h == Head(queue) IN
              IF TaskCompleted(h.t)
                THEN /\ queue' = Tail(queue)           \* skipped, the loop pops again
                     /\ ws' = [ws EXCEPT ![w] = "idle"]
                     /\ UNCHANGED <<wt, wlocal>>
                ELSE LET q1 == IF h.par > 1 THEN <<[t |-> h.t, par |-> h.par - 1]>> \o Tail(queue) ELSE Tail(queue)
                         ws1 == [ws EXCEPT ![w] = "running"]
                     IN /\ queue' = q1
                        /\ wt' = [wt EXCEPT ![w] = h.t]
                        /\ wlocal' = [wlocal EXCEPT ![w] = 0]
                        /\ IF q1 # <<>> THEN NotifyOne(ws1) ELSE ws' = ws1
    /\ UNCHANGED <<scheduled, batchIndex, doneBatches, completed, sent>>

\* QueryTask::run: claim the next partition; evaluate it; an error -> fail_with
RunPartition(w) ==
    /\ ws[w] = "running"
    /\ LET t == wt[w]
           i == batchIndex[t] + 1
       IN IF i > NPart[t] \/ completed[t]
            THEN /\ ws' = [ws EXCEPT ![w] = "finishing"]       \* next_partition() = None (or completed seen)
                 /\ batchIndex' = [batchIndex EXCEPT ![t] = @ + 1]
                 /\ UNCHANGED <<completed, sent, wlocal>>
            ELSE /\ batchIndex' = [batchIndex EXCEPT ![t] = i]
                 /\ IF FailAt[t] = i
                      THEN /\ IF completed[t] THEN UNCHANGED <<completed, sent, batchIndex>>
                              ELSE /\ completed' = [completed EXCEPT ![t] = TRUE]
                                   /\ sent' = [sent EXCEPT ![t] = @ + 1]        \* Err(..) to the caller
                           /\ ws' = [ws EXCEPT ![w] = "idle"]
                           /\ wt' = [wt EXCEPT ![w] = NoTask]
                           /\ UNCHANGED wlocal
                      ELSE /\ wlocal' = [wlocal EXCEPT ![w] = @ + 1]
                           /\ UNCHANGED <<completed, sent, ws>>
    /\ UNCHANGED <<queue, scheduled, doneBatches>> /\ (ws'[w] = "idle" \/ UNCHANGED wt)

\* push_result under the state lock: the worker that completes the count sends the answer
Finish(w) ==
    /\ ws[w] = "finishing"
    /\ LET t == wt[w] IN
       IF completed[t] THEN UNCHANGED <<doneBatches, completed, sent>>
       ELSE /\ doneBatches' = [doneBatches EXCEPT ![t] = @ + wlocal[w]]
            /\ IF doneBatches'[t] = NPart[t]
                 THEN /\ sent' = [sent EXCEPT ![t] = @ + 1]
                      /\ completed' = [completed EXCEPT ![t] = TRUE]
                 ELSE UNCHANGED <<sent, completed>>
    /\ ws' = [ws EXCEPT ![w] = "idle"]
    /\ wt' = [wt EXCEPT ![w] = NoTask]
    /\ UNCHANGED <<queue, wlocal, scheduled, batchIndex>>

Next == (\E t \in Tasks : Schedule(t)) \/ (\E w \in Workers : Await(w) \/ RunPartition(w) \/ Finish(w))
Spec == Init /\ [][Next]_vars /\ \A w \in Workers : WF_vars(Await(w)) /\ WF_vars(RunPartition(w)) /\ WF_vars(Finish(w))

AnswerAtMostOnce == \A t \in Tasks : sent[t] <= 1
\* a runnable task in the queue is never left with every worker asleep (no lost wake-up)
NoLostWakeup == (\E i \in 1..Len(queue) : ~TaskCompleted(queue[i].t)) => \E w \in Workers : ws[w] # "waiting"
\* a worker only ever holds a task that was scheduled
WorkersSane == \A w \in Workers : ws[w] \in {"running", "finishing"} => wt[w] \in Tasks /\ scheduled[wt[w]]
EveryRequestAnswered == \A t \in Tasks : scheduled[t] ~> (sent[t] = 1)
AllWorkersReturn == \A w \in Workers : []<>(ws[w] \in {"idle", "waiting", "woken"})
=============================================================================
