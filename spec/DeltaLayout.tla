----------------------------- MODULE DeltaLayout -----------------------------
(***************************************************************************)
(* Integer column compression of query responses (api.rs Column::Int):     *)
(* range / delta / double-delta at three widths / raw, chosen from the      *)
(* minimal and maximal first and second differences.  Parametric in the    *)
(* widths, so TLC proves Decode(Encode(xs)) = xs exhaustively at scaled    *)
(* widths; the harness generates the boundary sequences at the real widths *)
(* and checks the same identity on the real coder.                          *)
(***************************************************************************)
EXTENDS Integers, Sequences, FiniteSets, TLC

CONSTANTS W1, W2, W3,    \* half-ranges of the three narrow types: a delta d fits type k iff -Wk - 1 <= d <= Wk
          VMax           \* half-range of the value type itself: a range step must fit it (the difference of two
                         \* values need not: statistics are computed in a type twice as wide)

Deltas(xs) == [i \in 1..(Len(xs) - 1) |-> xs[i + 1] - xs[i]]
Fits(ds, w) == \A i \in 1..Len(ds) : -w - 1 <= ds[i] /\ ds[i] <= w
SetMin(S) == CHOOSE x \in S : \A y \in S : x <= y
SetMax(S) == CHOOSE x \in S : \A y \in S : x >= y
Layout(xs) ==
    IF Len(xs) < 2 THEN "raw"
    ELSE LET d == Deltas(xs)
             dd == Deltas(d)
             \* with two values there is no second difference, and no double-delta layout; the double-delta
             \* coder carries first differences in the value type, so they must fit it
             HasDD == Len(dd) > 0 /\ Fits(d, VMax)
         IN IF (\A i \in 1..Len(d) : d[i] = d[1]) /\ Fits(<<d[1]>>, VMax) THEN "range"
            ELSE IF Fits(d, W1) THEN "d1"
            ELSE IF HasDD /\ Fits(dd, W1) THEN "dd1"
            ELSE IF Fits(d, W2) THEN "d2"
            ELSE IF HasDD /\ Fits(dd, W2) THEN "dd2"
            ELSE IF Fits(d, W3) THEN "d3"
            ELSE IF HasDD /\ Fits(dd, W3) THEN "dd3"
            ELSE "raw"

Encode(xs) ==
    LET l == Layout(xs) IN
    CASE l = "raw" -> [l |-> l, first |-> 0, second |-> 0, data |-> xs]
      [] l = "range" -> [l |-> l, first |-> xs[1], second |-> Len(xs), data |-> <<xs[2] - xs[1]>>]
      [] l \in {"d1", "d2", "d3"} -> [l |-> l, first |-> xs[1], second |-> 0, data |-> Deltas(xs)]
      [] OTHER -> [l |-> l, first |-> xs[1], second |-> xs[2], data |-> Deltas(Deltas(xs))]

RECURSIVE Prefix(_, _)
Prefix(start, ds) == IF ds = <<>> THEN <<start>> ELSE <<start>> \o Prefix(start + Head(ds), Tail(ds))
Decode(e) ==
    CASE e.l = "raw" -> e.data
      [] e.l = "range" -> [i \in 1..e.second |-> e.first + (i - 1) * e.data[1]]
      [] e.l \in {"d1", "d2", "d3"} -> Prefix(e.first, e.data)
      [] OTHER -> Prefix(e.first, Prefix(e.second - e.first, e.data))

Width(l) == CASE l \in {"d1", "dd1"} -> W1 [] l \in {"d2", "dd2"} -> W2 [] l \in {"d3", "dd3"} -> W3 [] OTHER -> 0
RoundTrip(xs) == Decode(Encode(xs)) = xs
\* what is stored in a narrow type fits it
NarrowOK(xs) == LET e == Encode(xs) IN Width(e.l) > 0 => Fits(e.data, Width(e.l))
=============================================================================
