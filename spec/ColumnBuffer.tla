---------------------------- MODULE ColumnBuffer ----------------------------
(***************************************************************************)
(* The column buffer a table keeps per column (mem_store/column_buffer.rs *)
(* ColumnBuffer / TypedBuffer): a type lattice                             *)
(*      Empty < Int < Float,   anything + Str = Mixed (read back as Str)   *)
(* plus a presence bitmap.  Each ingestion batch contributes a run of     *)
(* cells of one wire kind (dense ints / floats / strings, sparse ints /   *)
(* floats, mixed, all-NULL, or the column is absent from the batch).      *)
(* Required result of a plain SELECT: exactly the contributed cells, in   *)
(* order, NULL where none was supplied; a cell of a column that received  *)
(* several types may come back as its documented degrade.                  *)
(***************************************************************************)
EXTENDS Integers, Sequences, FiniteSets, TLC

Kinds == {"ints", "floats", "strs", "nulls", "sparse_i", "sparse_f", "mixed", "absent"}
\* abstract cell: type tag + position in its contribution (the harness makes the value from class, batch and position)
Cell(t, b, p) == [t |-> t, b |-> b, p |-> p]

\* cells a contribution of `kind` and abstract length n supplies (sparse: every second cell NULL; mixed: i, f, s, NULL cycle)
CellsOf(kind, n, b) ==
    [p \in 1..n |->
        CASE kind = "ints" -> Cell("i", b, p)
          [] kind = "floats" -> Cell("f", b, p)
          [] kind = "strs" -> Cell("s", b, p)
          [] kind \in {"nulls", "absent"} -> Cell("null", b, p)
          [] kind = "sparse_i" -> IF p % 2 = 1 THEN Cell("null", b, p) ELSE Cell("i", b, p)
          [] kind = "sparse_f" -> IF p % 2 = 0 THEN Cell("null", b, p) ELSE Cell("f", b, p)
          [] kind = "mixed" -> Cell(<<"i", "f", "s", "null">>[((p - 1) % 4) + 1], b, p)]

VARIABLES kind,    \* TypedBuffer variant: "Empty" | "Int" | "Float" | "Str" | "Mixed"
          cells,   \* everything supplied so far, in order
          hist     \* the contributions (kind, abstract length)
vars == <<kind, cells, hist>>

Init == kind = "Empty" /\ cells = <<>> /\ hist = <<>>

Types(cs) == {cs[i].t : i \in 1..Len(cs)} \ {"null"}
\* the variant after pushing values of the given types into a buffer of variant k
Lift(k, ts) ==
    IF ts = {} THEN k
    ELSE IF "s" \in ts THEN (IF k \in {"Empty", "Str"} /\ ts = {"s"} THEN "Str" ELSE "Mixed")
    ELSE IF k \in {"Str", "Mixed"} THEN "Mixed"
    ELSE IF "f" \in ts \/ k = "Float" THEN "Float"
    ELSE "Int"

Push(kd, n) ==
    LET cs == CellsOf(kd, n, Len(hist) + 1) IN
    /\ cells' = cells \o cs
    /\ kind' = Lift(kind, Types(cs))
    /\ hist' = Append(hist, [kind |-> kd, n |-> n])

\* the type a supplied cell may be read back as
ReadBackTypes(c, finalKind, allTypes) ==
    IF c.t = "null" THEN {"null"}
    ELSE IF Cardinality(allTypes) <= 1 THEN {c.t}                      \* homogeneous column: exact
    ELSE {c.t} \cup (IF finalKind \in {"Mixed", "Str"} THEN {"s"} ELSE {}) \cup (IF c.t = "i" THEN {"f"} ELSE {})

\* the lattice never goes down, and the column is as long as what was supplied
KindOrder(k) == CASE k = "Empty" -> 0 [] k = "Int" -> 1 [] k = "Float" -> 2 [] k = "Str" -> 3 [] k = "Mixed" -> 4
Monotone == [][KindOrder(kind') >= KindOrder(kind) \/ (kind = "Float" /\ kind' = "Mixed") \/ (kind = "Str" /\ kind' = "Mixed")]_vars
LengthOK == Len(cells) = (LET RECURSIVE S(_) S(h) == IF h = <<>> THEN 0 ELSE Head(h).n + S(Tail(h)) IN S(hist))
=============================================================================
