------------------------------ MODULE XorFloat ------------------------------
(***************************************************************************)
(* The XOR float stream coder of query responses                           *)
(* (locustdb-compression-utils xor_float/double.rs), transcribed at a      *)
(* parametric word width: a word has B bits, the lowest MW of them are the *)
(* mantissa.  Encoder and decoder share a window (leading zeros capped at  *)
(* LZCap, significant bits) implicitly; `regret` lets the encoder keep a   *)
(* window that is wider than needed for at most MaxRegret wasted bits.     *)
(* With a reduced mantissa m the XOR is masked to the sign, the exponent   *)
(* and the leading m mantissa bits; the encoder keeps XOR-ing against the  *)
(* unmasked previous value, the decoder against its own output.            *)
(* Checked: every decoded word equals the input on the unmasked bits.      *)
(* With B = 15, MW = 3 a word lifted by 49 bits is an f64 with a 3-bit     *)
(* mantissa prefix, and the real coder must produce the same tokens.       *)
(***************************************************************************)
EXTENDS Integers, Sequences, Bitwise, TLC

CONSTANTS B, MW, LZCap

RECURSIVE P2(_)
P2(n) == IF n = 0 THEN 1 ELSE 2 * P2(n - 1)
All == P2(B) - 1
\* m = -1: full precision
MaskOf(m) == IF m < 0 THEN All ELSE All - (P2(MW - m) - 1)
RECURSIVE BitLen(_)
BitLen(x) == IF x = 0 THEN 0 ELSE 1 + BitLen(x \div 2)
LZ(x) == B - BitLen(x)
RECURSIVE TZ(_)
TZ(x) == IF x = 0 THEN B ELSE IF x % 2 = 1 THEN 0 ELSE 1 + TZ(x \div 2)
MinI(a, b) == IF a < b THEN a ELSE b

\* encoder state: [last, lz, tz, sig, regret, out]
EncStep(st, f, mask, maxRegret) ==
    LET x == (f ^^ st.last) & mask
        lz == MinI(LZ(x), LZCap)
        tz == TZ(x)
    IN IF tz = B
         THEN [st EXCEPT !.last = f, !.out = Append(@, [t |-> "same", lz |-> 0, sig |-> 0, bits |-> 0])]
         ELSE LET sig == B - lz - tz IN
              IF lz >= st.lz /\ tz >= st.tz /\ (st.regret < maxRegret \/ sig = st.sig)
                THEN [st EXCEPT !.last = f, !.regret = @ + st.sig - sig,
                                !.out = Append(@, [t |-> "reuse", lz |-> 0, sig |-> st.sig, bits |-> shiftR(x, st.tz)])]
                ELSE [last |-> f, lz |-> lz, tz |-> tz, sig |-> sig, regret |-> 0,
                      out |-> Append(st.out, [t |-> "new", lz |-> lz, sig |-> sig, bits |-> shiftR(x, tz)])]
RECURSIVE EncRun(_, _, _, _)
EncRun(st, fs, mask, maxRegret) ==
    IF fs = <<>> THEN st ELSE EncRun(EncStep(st, Head(fs), mask, maxRegret), Tail(fs), mask, maxRegret)
Encode(fs, m, maxRegret) ==
    IF fs = <<>> THEN [n |-> 0, first |-> 0, toks |-> <<>>]
    ELSE [n |-> Len(fs), first |-> fs[1],
          toks |-> EncRun([last |-> fs[1], lz |-> B + 1, tz |-> B + 1, sig |-> 0, regret |-> 0, out |-> <<>>],
                          Tail(fs), MaskOf(m), maxRegret).out]

\* decoder state: [last, tz, sig, out]
RECURSIVE ShiftL(_, _)
ShiftL(x, k) == IF k = 0 THEN x ELSE ShiftL(2 * x, k - 1)
DecStep(st, tok) ==
    IF tok.t = "same" THEN [st EXCEPT !.out = Append(@, st.last)]
    ELSE LET sig == IF tok.t = "new" THEN tok.sig ELSE st.sig
             tz == IF tok.t = "new" THEN B - tok.lz - tok.sig ELSE st.tz
             v == st.last ^^ ShiftL(tok.bits, tz)
         IN [last |-> v, tz |-> tz, sig |-> sig, out |-> Append(st.out, v)]
RECURSIVE DecRun(_, _)
DecRun(st, toks) == IF toks = <<>> THEN st ELSE DecRun(DecStep(st, Head(toks)), Tail(toks))
Decode(e) == IF e.n = 0 THEN <<>>
             ELSE DecRun([last |-> e.first, tz |-> B + 1, sig |-> 0, out |-> <<e.first>>], e.toks).out

\* what must survive: the unmasked bits of every value
Keeps(fs, m, maxRegret) ==
    LET d == Decode(Encode(fs, m, maxRegret))
    IN Len(d) = Len(fs) /\ \A i \in 1..Len(fs) : ((d[i] ^^ fs[i]) & MaskOf(m)) = 0
\* the fields fit their wire widths (5 bits leading zeros, 6 bits significant - 1 at B = 64)
FieldsOK(fs, m, maxRegret) ==
    \A i \in 1..Len(Encode(fs, m, maxRegret).toks) :
        LET k == Encode(fs, m, maxRegret).toks[i] IN
        k.t = "new" => k.lz <= LZCap /\ k.sig >= 1 /\ k.sig <= B /\ k.bits < P2(k.sig)
=============================================================================
