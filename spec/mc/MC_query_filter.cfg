SPECIFICATION Spec
CONSTANTS
  NRows = 6
  Family = "filter"
INVARIANTS Emit
CHECK_DEADLOCK FALSE
