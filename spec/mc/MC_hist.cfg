SPECIFICATION SeqSpec
CONSTANTS
  UT = {"ta", "tb"}
  Shapes <- MCShapes
  SubKeys = {"all"}
  Clients = {"c1"}
  QClients = {}
  MaxReq = 3
  MaxWal = 100
  MaxWalFiles = 100
  CombineMode = "any"
  FsSteps = FALSE
  Dev = {}
  Avoid <- MCAvoid
  MaxOps = 3
  Emit = FALSE
CONSTRAINT Bound
ACTION_CONSTRAINT Canon
VIEW View
INVARIANTS ContentOK Tiles ColumnsKept CatalogueExactlyOnce NoFailure Durable QuiescentDisk WalAccounting
CHECK_DEADLOCK FALSE
