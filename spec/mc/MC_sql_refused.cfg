SPECIFICATION Spec
CONSTANTS
  Part = "refused"
INVARIANTS Emit
CHECK_DEADLOCK FALSE
