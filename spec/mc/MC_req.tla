------------------------------ MODULE MC_req ------------------------------
(* Request histories for C11: every assignment of request sequences (over the request classes) to *)
(* 1..K clients with at most MaxLen requests in total.  Emitted as JSON for replay; the oracle of  *)
(* the replay is the contract of Scheduler.tla / the property: every call returns, a failing       *)
(* request returns an error value, and the next request is served.                                *)
EXTENDS Integers, Sequences, FiniteSets, TLC, Json
CONSTANTS ClientIds, Classes, MaxLen
VARIABLES h
Init == h = [c \in ClientIds |-> <<>>]
Total == LET RECURSIVE Sum(_) Sum(S) == IF S = {} THEN 0 ELSE LET c == CHOOSE x \in S : TRUE IN Len(h[c]) + Sum(S \ {c}) IN Sum(ClientIds)
Next == Total < MaxLen /\ \E c \in ClientIds : \E r \in Classes : h' = [h EXCEPT ![c] = Append(@, r)]
Spec == Init /\ [][Next]_h
\* canonical: client i+1 is used only if client i is (histories that differ by renaming clients are the same)
Canon == \A c \in ClientIds : \A d \in ClientIds : (c < d /\ h[c] = <<>>) => h[d] = <<>>
EmitInv == (Total = MaxLen /\ Canon) => PrintT(<<"REPLAY", ToJson([clients |-> [c \in ClientIds |-> h[c]]])>>)
=============================================================================
