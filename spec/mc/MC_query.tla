------------------------------ MODULE MC_query ------------------------------
(* Bounded families of tables and queries for C02-C05.  One TLC state per table; the invariant prints, *)
(* as one JSON line, the table and the specification's answer to every query of the families           *)
(* (the families themselves are printed once, by the state k = 0).                                     *)
EXTENDS QuerySem, Json
CONSTANTS NRows,    \* rows per generated table
          Family    \* "filter" | "group" | "sort"
VARIABLES k

Vals == <<0, 2, 4, 6>>
NVals == <<NULL, 0, 2, 4, 6>>
Gen(a, b) == [r \in 1..NRows |->
    [id |-> r - 1,
     i |-> Vals[((a + r) % 4) + 1],
     f |-> Vals[((a + 2 * r + b) % 4) + 1],
     s |-> Vals[((b + r) % 4) + 1],
     n |-> NVals[((a + b + r) % 5) + 1],
     nf |-> NVals[((2 * a + r) % 5) + 1],
     ns |-> NVals[((b + 2 * r) % 5) + 1],
     l |-> IF 2 * r <= NRows THEN NULL ELSE Vals[((a + b + r) % 4) + 1],   \* a column first seen in later batches
     z |-> NULL]]
AllNull == [r \in 1..NRows |-> [id |-> r - 1, i |-> 2, f |-> 4, s |-> 0, n |-> NULL, nf |-> NULL, ns |-> NULL, l |-> NULL, z |-> NULL]]
Same == [r \in 1..NRows |-> [id |-> r - 1, i |-> 4, f |-> 4, s |-> 4, n |-> 4, nf |-> 4, ns |-> 4, l |-> 4, z |-> NULL]]
One == <<[id |-> 0, i |-> 6, f |-> 0, s |-> 2, n |-> NULL, nf |-> 6, ns |-> 0, l |-> NULL, z |-> NULL]>>
Tables == <<AllNull, Same, One>> \o [j \in 1..16 |-> Gen((j - 1) \div 4, (j - 1) % 4)]
NT == Len(Tables)

Ops == {"=", "<>", "<", "<=", ">", ">="}
Consts == {-3, -1, 0, 1, 2, 3, 4, 5, 6, 7, 9}
PCols == {"i", "f", "s", "n", "nf", "ns", "l", "z"}
ColConst == {Atom(op, Col(c), Const(v)) : op \in Ops, c \in PCols, v \in Consts}
Pairs == {<<"i", "n">>, <<"i", "f">>, <<"n", "nf">>, <<"s", "ns">>, <<"f", "nf">>, <<"n", "l">>}
ColCol == {Atom(op, Col(p[1]), Col(p[2])) : op \in Ops, p \in Pairs}
NullTests == {IsNullP(Col(c)) : c \in PCols} \cup {NotNullP(Col(c)) : c \in PCols}
Small == {Atom(op, Col(c), Const(v)) : op \in {"<", "=", ">="}, c \in {"i", "n", "s", "ns", "nf"}, v \in {2, 3}}
            \cup {IsNullP(Col("n")), NotNullP(Col("ns")), IsNullP(Col("l"))}
Conj == {AndP(p, q) : p \in Small, q \in Small} \cup {OrP(p, q) : p \in Small, q \in Small}
Negs == {NotP(p) : p \in Small} \cup {NotP(AndP(p, q)) : p \in {Atom("<", Col("n"), Const(3)), IsNullP(Col("n"))}, q \in Small}
NotInner == {AndP(NotP(p), q) : p \in {Atom("=", Col("n"), Const(2)), Atom("<", Col("s"), Const(3))}, q \in Small}
PredSeq == SetToSeq(ColConst) \o SetToSeq(ColCol) \o SetToSeq(NullTests) \o SetToSeq(Conj) \o SetToSeq(Negs) \o SetToSeq(NotInner)

\* ---- group queries
\* (grouping by the dense row number id, with a filter that removes the first rows: every row is its own group and
\* every group is moved when the group table is compacted; <<"i", "s">>: a sparse two-column key without NULLs)
KeySets == <<<<>>, <<"s">>, <<"n">>, <<"ns">>, <<"i">>, <<"f">>, <<"s", "n">>, <<"ns", "nf">>, <<"i", "s", "ns">>, <<"l">>, <<"z">>, <<"id">>, <<"i", "s">>>>
A(f, c) == [f |-> f, c |-> c]
AggAll == <<[f |-> "count1", c |-> ""], A("count", "n"), A("sum", "i"), A("sum", "n"), A("min", "i"), A("max", "n"), A("min", "f"),
            A("max", "nf"), A("avg", "i"), A("avg", "n"), A("sum", "f"), A("sum", "nf"), A("count", "ns"), A("count", "z"), A("sum", "z"), A("max", "l")>>
\* composite lists leave out the aggregates over the never-ingested column z (those are asked on their own)
AggNoZ == SelectSeq(AggAll, LAMBDA a : a.c # "z" /\ ~(a.f = "avg" /\ a.c \in {"n", "nf"}))   \* (AVG over nullable columns: KF8)
AggCore == SelectSeq(AggNoZ, LAMBDA a : a.c # "l")
AggSets == <<AggCore, AggNoZ>> \o [j \in 1..Len(AggAll) |-> <<AggAll[j]>>] \o << <<A("sum", "i"), A("count", "n")>>, <<A("min", "n"), A("max", "i"), [f |-> "count1", c |-> ""]>> >>
Wheres == <<TrueP, Atom(">", Col("i"), Const(1)), NotNullP(Col("n")), Atom("=", Col("s"), Const(2)), Atom("<", Col("nf"), Const(5)), Atom(">", Col("i"), Const(9)),
           Atom(">", Col("id"), Const(0)), Atom(">=", Col("id"), Const(2))>>
GQueries == [q \in 1..(Len(KeySets) * Len(AggSets) * Len(Wheres)) |->
    LET x == q - 1
        ki == (x % Len(KeySets)) + 1
        ai == ((x \div Len(KeySets)) % Len(AggSets)) + 1
        wi == (x \div (Len(KeySets) * Len(AggSets))) + 1
    IN [keys |-> KeySets[ki], aggs |-> AggSets[ai], where |-> Wheres[wi]]]

\* ---- sort queries
K(c, d) == [c |-> c, desc |-> d]
SortKeys == << <<K("i", FALSE)>>, <<K("i", TRUE)>>, <<K("n", FALSE)>>, <<K("n", TRUE)>>, <<K("s", FALSE)>>, <<K("s", TRUE)>>, <<K("ns", TRUE)>>, <<K("ns", FALSE)>>,
               <<K("f", FALSE)>>, <<K("nf", TRUE)>>, <<K("nf", FALSE)>>, <<K("s", FALSE), K("n", TRUE)>>, <<K("n", FALSE), K("i", TRUE)>>,
               <<K("ns", FALSE), K("f", FALSE)>>, <<K("i", TRUE), K("s", FALSE), K("nf", FALSE)>>, <<K("l", FALSE)>>, <<K("z", FALSE), K("i", FALSE)>>, <<>> >>
Limits == <<-1, 0, 1, 2, 3, 4, NRows, NRows + 2>>
Offsets == <<-1, 0, 1, 3, NRows, NRows + 2>>
SWheres == <<TrueP, NotNullP(Col("n")), Atom("<", Col("i"), Const(5))>>
SQueries == [q \in 1..(Len(SortKeys) * Len(SWheres)) |->
    [keys |-> SortKeys[((q - 1) % Len(SortKeys)) + 1], where |-> SWheres[((q - 1) \div Len(SortKeys)) + 1]]]
\* LIMIT n OFFSET m returns rows m+1 .. m+n of the order (fewer or none when the table is shorter)
Window(total, limit, offset) ==
    LET m == IF offset < 0 THEN 0 ELSE offset
        lo == m + 1
        hi == IF limit < 0 THEN total ELSE (IF m + limit < total THEN m + limit ELSE total)
    IN [lo |-> lo, hi |-> hi]
SortAnswer(q, tbl) == LET sorted == OrderBy(q.keys, q.where, tbl) IN
    [sorted |-> [j \in 1..Len(sorted) |-> tbl[sorted[j]].id],
     rank |-> IF q.keys = <<>> THEN [j \in 1..Len(sorted) |-> j] ELSE TieRank(q.keys, tbl, sorted),
     windows |-> [li \in 1..Len(Limits) |-> [oi \in 1..Len(Offsets) |-> Window(Len(sorted), Limits[li], Offsets[oi])]]]

GroupRows(q, tbl) == SetToSeq(GroupAgg(q.keys, q.aggs, q.where, tbl))

Emit ==
    IF k = 0
      THEN PrintT(<<"REPLAY", ToJson([kind |-> "queries", family |-> Family,
                     preds |-> IF Family = "filter" THEN PredSeq ELSE <<>>,
                     gqueries |-> IF Family = "group" THEN GQueries ELSE <<>>,
                     squeries |-> IF Family = "sort" THEN SQueries ELSE <<>>,
                     limits |-> Limits, offsets |-> Offsets])>>)
      ELSE PrintT(<<"REPLAY", ToJson([kind |-> "table", family |-> Family, idx |-> k, rows |-> Tables[k],
                     filters |-> IF Family = "filter" THEN [p \in 1..Len(PredSeq) |-> [j \in 1..Len(Filter(PredSeq[p], Tables[k])) |-> Tables[k][Filter(PredSeq[p], Tables[k])[j]].id]] ELSE <<>>,
                     filters_dev_or |-> IF Family = "filter" THEN [p \in 1..Len(PredSeq) |-> [j \in 1..Len(FilterD(PredSeq[p], Tables[k], TRUE)) |-> Tables[k][FilterD(PredSeq[p], Tables[k], TRUE)[j]].id]] ELSE <<>>,
                     groups |-> IF Family = "group" THEN [q \in 1..Len(GQueries) |-> GroupRows(GQueries[q], Tables[k])] ELSE <<>>,
                     sorts |-> IF Family = "sort" THEN [q \in 1..Len(SQueries) |-> SortAnswer(SQueries[q], Tables[k])] ELSE <<>>])>>)

Init == k \in 0..NT
Next == UNCHANGED k
Spec == Init /\ [][Next]_k
=============================================================================
