---- MODULE MC_blob ----
EXTENDS Blob, Json
VARIABLE p
Init == p \in Payloads
Next == UNCHANGED p
Spec == Init /\ [][Next]_p
Inv == Safe(p) /\ RoundTrip(p)
\* the corruption classes (region x kind) the binding has to realise on real files, with the number of model-level instances
Emit == p = <<>> => PrintT(<<"REPLAY", ToJson([regions |-> <<"version", "length", "checksum", "payload">>,
                                              kinds |-> <<"flip", "cut", "append", "foreign">>])>>)
====
