------------------------------ MODULE MC_delta ------------------------------
(* DeltaLayout.tla at the scaled widths (1, 3, 7): the round trip and the fit of every narrow layout are    *)
(* checked for every sequence; every sequence is printed for the replay, which concretises it at the real   *)
(* widths (scaled type bounds go to real type bounds) as first differences, second differences and values.  *)
EXTENDS DeltaLayout, Json
CONSTANTS V, MaxLen
VARIABLES xs
Init == xs \in UNION {[1..n -> (-V)..V] : n \in 0..MaxLen}
Next == UNCHANGED xs
Spec == Init /\ [][Next]_xs
Inv == RoundTrip(xs) /\ NarrowOK(xs)
Emit == PrintT(<<"REPLAY", ToJson([xs |-> xs, layout |-> Layout(xs)])>>)
=============================================================================
