------------------------------ MODULE MC_arith ------------------------------
(* C06: checked integer arithmetic. Operands at the edges of u8/u16/u32/i64 and of their offset encodings; *)
(* every binary expression (depth 1) and a covering family of depth-2 trees; sums of 2-4 values.           *)
(* One line per operand row: the row's columns and, for every expression, the exact value and its class.  *)
EXTENDS Int64, Json, FiniteSets, SequencesExt
CONSTANTS Depth2
VARIABLES k

Edges == <<FromInt(0), FromInt(1), FromInt(-1), FromInt(2), FromInt(-3), FromInt(127), FromInt(128), FromInt(255), FromInt(256), FromInt(-256),
           FromInt(32767), FromInt(65535), FromInt(65536), FromInt(-65537),
           Sub(Pow2(31), FromInt(1)), Pow2(31), Neg(Pow2(31)), Sub(Pow2(32), FromInt(1)), Pow2(32), Add(Pow2(32), FromInt(1)),
           Pow2(62), Neg(Pow2(62)), Sub(Pow2(63), FromInt(2)), Sub(Pow2(63), FromInt(3)), Neg(Pow2(63)), Add(Neg(Pow2(63)), FromInt(1)),
           Add(Pow2(62), Pow2(61)), Add(Mul(FromInt(30370), FromInt(100000)), FromInt(500)), Neg(Add(Mul(FromInt(30370), FromInt(100000)), FromInt(499)))>>
NE == Len(Edges)
Ops == <<"+", "-", "*", "/", "%">>
Apply(op, x, y) == CASE op = "+" -> Add(x, y) [] op = "-" -> Sub(x, y) [] op = "*" -> Mul(x, y) [] op = "/" -> Div(x, y) [] op = "%" -> Mod(x, y)
\* result of a checked binary step: value, or "div0"
Step(op, x, y) == IF op \in {"/", "%"} /\ IsZero(y) THEN [kind |-> "div0", v |-> Zero] ELSE [kind |-> "val", v |-> Apply(op, x, y)]
\* class of an expression a op1 b (depth 1) / (a op1 b) op2 c / a op1 (b op2 c):
\*   "exact": every sub-term fits -> the query must return exactly v
\*   "fail":  the final value does not fit, or a division by zero is evaluated -> the query must fail
\*   "either": only an intermediate value leaves the range -> exact value or failure, never another value
Class1(op, a, b) == LET s == Step(op, a, b) IN
    IF s.kind = "div0" THEN [cls |-> "fail", v |-> Zero]
    ELSE IF FitsI64(s.v) THEN [cls |-> "exact", v |-> s.v] ELSE [cls |-> "fail", v |-> s.v]
Class2L(op1, op2, a, b, c) == LET s == Step(op1, a, b) IN
    IF s.kind = "div0" THEN [cls |-> "fail", v |-> Zero]
    ELSE LET t == Step(op2, s.v, c) IN
         IF t.kind = "div0" THEN [cls |-> "fail", v |-> Zero]
         ELSE IF ~FitsI64(t.v) THEN [cls |-> "fail", v |-> t.v]
         ELSE IF FitsI64(s.v) THEN [cls |-> "exact", v |-> t.v] ELSE [cls |-> "either", v |-> t.v]
Class2R(op1, op2, a, b, c) == LET s == Step(op2, b, c) IN
    IF s.kind = "div0" THEN [cls |-> "fail", v |-> Zero]
    ELSE LET t == Step(op1, a, s.v) IN
         IF t.kind = "div0" THEN [cls |-> "fail", v |-> Zero]
         ELSE IF ~FitsI64(t.v) THEN [cls |-> "fail", v |-> t.v]
         ELSE IF FitsI64(s.v) THEN [cls |-> "exact", v |-> t.v] ELSE [cls |-> "either", v |-> t.v]

\* row k pairs operand a = Edges[k] with every b (depth 1); depth-2 trees use a reduced third operand set
Small3 == <<FromInt(2), FromInt(-1), FromInt(0), Pow2(32), Sub(Pow2(63), FromInt(2)), Neg(Pow2(63))>>
Row(i) == [a |-> Edges[i],
           d1 |-> [j \in 1..NE |-> [o \in 1..5 |-> Class1(Ops[o], Edges[i], Edges[j])]],
           d2 |-> IF Depth2 THEN [j \in 1..NE |-> [c \in 1..Len(Small3) |-> [o1 \in 1..5 |-> [o2 \in 1..5 |->
                     [l |-> Class2L(Ops[o1], Ops[o2], Edges[i], Edges[j], Small3[c]), r |-> Class2R(Ops[o1], Ops[o2], Edges[i], Edges[j], Small3[c])]]]]]
                  ELSE <<>>]
\* sums: every 3-element list over a reduced set, with the class of every order-independent evaluation:
\* exact total; "fail" when the total does not fit; "either" when the total fits but some subset sum does not
SumVals == <<Pow2(62), Add(Pow2(62), Pow2(61)), Neg(Pow2(62)), Neg(Add(Pow2(62), Pow2(61))), FromInt(5), Sub(Pow2(63), FromInt(2)), Neg(Pow2(63)), FromInt(-7)>>
NS == Len(SumVals)
SumClass(x, y, z) == LET t == Add(Add(x, y), z)
                         parts == {x, y, z, Add(x, y), Add(x, z), Add(y, z)}
                     IN IF ~FitsI64(t) THEN [cls |-> "fail", v |-> t]
                        ELSE IF \A p \in parts : FitsI64(p) THEN [cls |-> "exact", v |-> t] ELSE [cls |-> "either", v |-> t]
Sums == [x \in 1..NS |-> [y \in 1..NS |-> [z \in 1..NS |-> SumClass(SumVals[x], SumVals[y], SumVals[z])]]]

Emit == IF k = 0 THEN PrintT(<<"REPLAY", ToJson([kind |-> "meta", edges |-> Edges, small3 |-> Small3, ops |-> Ops, sumset |-> SumVals, sums |-> Sums])>>)
        ELSE PrintT(<<"REPLAY", ToJson([kind |-> "row", idx |-> k, row |-> Row(k)])>>)
Init == k \in 0..NE
Next == UNCHANGED k
Spec == Init /\ [][Next]_k
=============================================================================
