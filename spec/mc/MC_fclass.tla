------------------------------ MODULE MC_fclass ------------------------------
(* Sequences of float classes (+0, -0, 1, -1, 1+ulp, NaN with payload, +inf, -inf, least subnormal, MAX,    *)
(* pi, negative signalling NaN) for the XOR float coder; what must survive is stated by Keeps.              *)
EXTENDS Integers, Sequences, TLC, Json
CONSTANTS NClasses, MaxLen
VARIABLES fs
Init == fs \in UNION {[1..n -> 0..(NClasses - 1)] : n \in 0..MaxLen}
Next == UNCHANGED fs
Spec == Init /\ [][Next]_fs
Emit == PrintT(<<"REPLAY", ToJson([fs |-> fs])>>)
=============================================================================
