------------------------------- MODULE MC_sql -------------------------------
EXTENDS SqlGrammar, Json, SequencesExt
CONSTANTS Part   \* "derive" | "refused" | "edits"
VARIABLES k
ItemSeq == SetToSeq(Items)
\* all 1-item lists, all ordered pairs, and a covering set of triples
ItemLists == {<<i>> : i \in Items} \cup {<<i, j>> : i \in Items, j \in Items}
               \cup {<<ItemSeq[x], ItemSeq[((x + 4) % Len(ItemSeq)) + 1], ItemSeq[((x + 9) % Len(ItemSeq)) + 1]>> : x \in 1..Len(ItemSeq)}
\* full cross product over item lists with one optional clause varied at a time, plus all clause combinations for single items
Derivs == {Stmt(il, f, <<>>, <<>>, [toks |-> <<>>, cls |-> "ok"]) : il \in ItemLists, f \in Froms}
            \cup {Stmt(<<i>>, [toks |-> <<"t">>, cls |-> "ok"], w, o, l) : i \in Items, w \in Wheres, o \in Orders, l \in Limits}
Seeds == {Stmt(<<ItemSeq[x], ItemSeq[((x + 3) % Len(ItemSeq)) + 1]>>, [toks |-> <<"t">>, cls |-> "ok"],
               <<"WHERE", "a", "<", "3", "AND", "s", "<>", "'zz'">>, <<"ORDER", "BY", "a", "DESC", ",", "s">>, [toks |-> <<"LIMIT", "2", "OFFSET", "1">>, cls |-> "ok"]).toks : x \in 1..6}
AllEdits == UNION {Edits(s) : s \in Seeds}
Emit == CASE Part = "derive" -> PrintT(<<"REPLAY", ToJson([kind |-> "derive", stmts |-> SetToSeq(Derivs)])>>)
          [] Part = "refused" -> PrintT(<<"REPLAY", ToJson([kind |-> "refused", stmts |-> SetToSeq(Refused)])>>)
          [] OTHER -> PrintT(<<"REPLAY", ToJson([kind |-> "edits", stmts |-> SetToSeq(AllEdits)])>>)
Init == k = 0
Next == UNCHANGED k
Spec == Init /\ [][Next]_k
=============================================================================
