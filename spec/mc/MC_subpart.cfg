SPECIFICATION Spec
INVARIANTS Inv Emit
CHECK_DEADLOCK FALSE
