---- MODULE MC_sched ----
EXTENDS Scheduler
MCNPart == [t \in Tasks |-> CASE t = "q0" -> 0 [] t = "q1" -> 1 [] t = "q2" -> 2 [] OTHER -> 3]
MCFailAt == [t \in Tasks |-> CASE t = "q2" -> 2 [] t = "q3" -> 1 [] OTHER -> 0]
====
