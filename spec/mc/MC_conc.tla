---------------------------- MODULE MC_conc ----------------------------
(* Concurrent configuration: one ingesting client, the flush thread (forced and self-triggered), *)
(* one query client and evictions, all interleaved at action granularity, over one user table    *)
(* (plus its catalogue tables).  TLC checks that every snapshot a query can take is a clean      *)
(* prefix (ContentOK holds in every state, also half-way through an ingestion), that nothing     *)
(* fails because of the concurrent activity (NoFailure), and deadlock freedom of the hand-shakes. *)
EXTENDS LocustStore
CONSTANTS MaxFlush
VARIABLES nflush

MCShapes == { {[t |-> "ta", n |-> 1, names |-> {"a"}]}, {[t |-> "ta", n |-> 2, names |-> {"a", "b"}]} }
MCAvoid == {}
MCAvoidKnown == {"query reads a cold partition whose files or catalogue entry are gone"}

cvars == <<vars, nflush>>
ConcNext ==
    \/ (IngestNext /\ UNCHANGED nflush)
    \/ (nflush < MaxFlush /\ ForceFlushCall /\ nflush' = nflush + 1)
    \/ (FlushNext /\ UNCHANGED nflush)
    \/ (QueryNext /\ UNCHANGED nflush)
    \/ (EvictNext /\ UNCHANGED nflush)
ConcInit == Init /\ nflush = 0
ConcSpec == ConcInit /\ [][ConcNext]_cvars

Bound == \A t \in AllT : nextPid[t] <= 2 * MaxFlush + 1
\* every query that has taken its snapshot can finish: QueryRead / QueryDone stay enabled
QueryNeverStuck == \A q \in QClients : qs[q].pc = "reading" => ENABLED (QueryDone(q) \/ \E p \in qs[q].todo : QueryRead(q, p))
\* what the snapshot of a query holds is the acknowledged history at that instant plus at most the in-flight request
SnapshotIsPrefix == \A q \in QClients : qs[q].pc = "reading" =>
    \E k \in 0..1 : Len(qs[q].snap) = Len(qs[q].acked) + k /\ SubSeq(qs[q].snap, 1, Len(qs[q].acked)) = qs[q].acked
=============================================================================
