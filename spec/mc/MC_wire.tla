------------------------------ MODULE MC_wire ------------------------------
EXTENDS WireBuffer, Json
CONSTANTS MaxRows
VARIABLES hist
Init == hist = <<>>
Next == Len(hist) < MaxRows /\ \E k \in Kinds : hist' = Append(hist, k)
Spec == Init /\ [][Next]_hist
Inv == Sound(Run(Init0, hist))
Emit == Len(hist) = MaxRows => LET s == Run(Init0, hist) IN
          PrintT(<<"REPLAY", ToJson([hist |-> hist, unsupported |-> s.bad, variant |-> s.v, cells |-> s.cells])>>)
=============================================================================
