---- MODULE MC_colbuf ----
EXTENDS ColumnBuffer, Json
CONSTANTS MaxBatches
Next == Len(hist) < MaxBatches /\ \E kd \in Kinds : \E n \in {1, 2, 4} : Push(kd, n)
Spec == Init /\ [][Next]_vars
\* one line per complete behaviour: the contributions and, per cell, the admissible read-back types
EmitInv == Len(hist) = MaxBatches =>
    PrintT(<<"REPLAY", ToJson([batches |-> hist, kind |-> kind,
                               cells |-> [i \in 1..Len(cells) |-> [t |-> cells[i].t, b |-> cells[i].b, p |-> cells[i].p,
                                                                    ok |-> ReadBackTypes(cells[i], kind, Types(cells))]]])>>)
====
