SPECIFICATION Spec
CONSTANTS
  Part = "derive"
INVARIANTS Emit
CHECK_DEADLOCK FALSE
