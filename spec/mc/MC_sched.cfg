SPECIFICATION Spec
CONSTANTS
  Workers = {"w1", "w2"}
  Tasks = {"q0", "q1", "q2", "q3"}
  NPart <- MCNPart
  FailAt <- MCFailAt
  NoNotify = FALSE
INVARIANTS AnswerAtMostOnce NoLostWakeup WorkersSane
PROPERTIES EveryRequestAnswered AllWorkersReturn
CHECK_DEADLOCK FALSE
