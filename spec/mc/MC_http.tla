------------------------------ MODULE MC_http ------------------------------
EXTENDS Http, Json
\* sequential schedules for the replay: when every request has been answered, print the history
Emit == (nreq = MaxReqs /\ \A c \in Clients : inflight[c] = None) =>
          PrintT(<<"REPLAY", ToJson([ops |-> [i \in 1..Len(hist) |->
                   [kind |-> hist[i].r.kind,
                    ep |-> IF hist[i].r.kind = "query" THEN hist[i].r.ep ELSE "insert_bin",
                    outcome |-> IF hist[i].r.kind = "query" THEN hist[i].r.outcome ELSE "ok",
                    nq |-> hist[i].r.nq, status |-> hist[i].r.status, snap |-> hist[i].r.snap]]])>>)
=============================================================================
