SPECIFICATION Spec
CONSTANTS
  NRows = 6
  Family = "sort"
INVARIANTS Emit
CHECK_DEADLOCK FALSE
