---- MODULE MC_subpart ----
EXTENDS Subpartition, Json
VARIABLES cs, sz, lim
Pool == 1..7
Sizes == {2, 8}
Limits == {1, 5, 11, 1000}
Init == /\ cs \in (SUBSET Pool) \ {{}}
        /\ sz \in [Pool -> Sizes]
        /\ lim \in Limits
Next == UNCHANGED <<cs, sz, lim>>
Spec == Init /\ [][Next]_<<cs, sz, lim>>
Cols == SetToSortSeq(cs, LAMBDA a, b : a < b)
\* sizes of columns that are not stored do not matter: canonical representative has them small
Canon == \A n \in Pool \ cs : sz[n] = 2
Inv == RoutingOK(Cols, sz, lim, Pool)
Emit == Canon => PrintT(<<"REPLAY", ToJson([cols |-> Cols, sizes |-> [i \in 1..Len(Cols) |-> sz[Cols[i]]], limit |-> lim,
                                          groups |-> Split(Cols, sz, lim), routes |-> [n \in Pool |-> Route(Split(Cols, sz, lim), n)]])>>)
====
