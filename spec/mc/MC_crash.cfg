SPECIFICATION CrashSpec
CONSTANTS
  UT = {"ta", "tb"}
  Shapes <- MCShapes
  SubKeys = {"all"}
  Clients = {"c1"}
  QClients = {}
  MaxReq = 2
  MaxWal = 100
  MaxWalFiles = 100
  CombineMode = "always"
  FsSteps = TRUE
  Dev = {}
  Avoid <- MCAvoid
  MaxOps = 2
  MaxCrash = 2
CONSTRAINT Bound
ACTION_CONSTRAINT Canon
INVARIANTS ContentOK Tiles ColumnsKept CatalogueExactlyOnce NoFailure Durable
CHECK_DEADLOCK FALSE
