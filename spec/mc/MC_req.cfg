SPECIFICATION Spec
CONSTANTS
  ClientIds = {1, 2}
  Classes = {"Q_OK", "Q_AGG", "E_PARSE", "E_TABLE", "E_TYPE", "E_OVERFLOW", "E_UNSUP", "E_DIV0", "E_OFFSET", "E_AVGF", "E_LIMITF", "INGEST", "FLUSH", "STATS"}
  MaxLen = 2
INVARIANTS EmitInv
CHECK_DEADLOCK FALSE
