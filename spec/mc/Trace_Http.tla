----------------------------- MODULE Trace_Http -----------------------------
(* B2 for Http.tla: events recorded by concurrent clients of a real server (send before the request leaves,  *)
(* recv after the answer arrived; one global order under a mutex) are validated against the specification.  *)
(* The moment a handler runs is not observable: Serve is a silent step, possible whenever a request is in    *)
(* flight.  The trace is accepted iff the end of the trace is reachable: TLC then reports the "violation"    *)
(* of NotDone.                                                                                               *)
EXTENDS Http, Json, IOUtils

Rec == ndJsonDeserialize(IOEnv.TRACE)
VARIABLE l
tvars == <<vars, l>>
R == Rec[l]
Ev(e) == l <= Len(Rec) /\ Rec[l].ev = e /\ l' = l + 1

TInit == Init /\ l = 1 /\ TLCSet(1, 0)
TReset == /\ Ev("reset")
          /\ \A c \in Clients : inflight[c] = None
          \* the recorder inserted one batch before the concurrent phase
          /\ applied' = 1 /\ sent' = 1 /\ acked' = 1
          /\ inflight' = [c \in Clients |-> None] /\ hist' = <<>> /\ nreq' = 0 /\ alive' = TRUE
TSend == /\ Ev("send")
         /\ IF R.kind = "insert" THEN SendInsert(R.c) ELSE SendQuery(R.c, R.ep, R.outcome, 1)
TServe == /\ l <= Len(Rec) /\ UNCHANGED l /\ \E c \in Clients : Serve(c)
TRecv == /\ Ev("recv")
         /\ Receive(R.c)
         /\ inflight[R.c].status = R.status
         \* the number of batches a succeeding query saw
         /\ (R.kind = "query" /\ R.status = 200 /\ R.snap >= 0) => inflight[R.c].snap = R.snap
TNext == TReset \/ TSend \/ TServe \/ TRecv
TSpec == TInit /\ [][TNext]_tvars
NotDone == l <= Len(Rec)
\* for the report of a rejected trace: the longest prefix that was matched (-workers 1)
Track == IF l > TLCGet(1) THEN TLCSet(1, l) ELSE TRUE
Post == PrintT(<<"MAXL", TLCGet(1), IF TLCGet(1) <= Len(Rec) THEN Rec[TLCGet(1)] ELSE "end">>)
=============================================================================
