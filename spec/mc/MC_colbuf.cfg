SPECIFICATION Spec
CONSTANTS
  MaxBatches = 3
INVARIANTS EmitInv LengthOK
PROPERTIES Monotone
CHECK_DEADLOCK FALSE
