------------------------------- MODULE MC_live -------------------------------
(* Liveness of the log-size hand-shake (C18 "ingestion that was held back by the log-size limit proceeds",    *)
(* C11): clients ingest with no force_flush at all; with MaxWal = 0 every acknowledged segment puts the      *)
(* accounted log size over the limit, so the next ingestion is held back (IngestLock is disabled) until the   *)
(* flush thread, which triggers on its own, has run.  Under weak fairness of the flush thread and of the      *)
(* ingestion steps:                                                                                           *)
(*   BlockedIngestProceeds - whenever the accounted size is over the limit it comes back under it,            *)
(*   EveryIngestAcked      - every ingestion that took the lock is acknowledged,                              *)
(*   FlushTerminates       - a flush that started reaches FlushDone.                                          *)
(* Without fairness of FlushNext (LiveSpecNoFlushFairness) the first property must fail: vacuity guard.       *)
EXTENDS LocustStore

MCShapes == { {[t |-> "ta", n |-> 1, names |-> {"a"}]} }
MCAvoid == {}

LiveNext == IngestNext \/ FlushNext
LiveSpec == Init /\ [][LiveNext]_vars /\ WF_vars(FlushNext) /\ WF_vars(IngestNext)
LiveSpecNoFlushFairness == Init /\ [][LiveNext]_vars /\ WF_vars(IngestNext)

BlockedIngestProceeds == (walAcct > MaxWal) ~> (walAcct <= MaxWal)
EveryIngestAcked == \A c \in Clients : (ing[c].pc # "idle") ~> (ing[c].pc = "idle")
FlushTerminates == (fl.pc # "idle") ~> (fl.pc = "idle")
=============================================================================
