SPECIFICATION Spec
CONSTANTS
  NRows = 6
  Family = "group"
INVARIANTS Emit
CHECK_DEADLOCK FALSE
