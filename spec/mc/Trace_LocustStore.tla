------------------------- MODULE Trace_LocustStore -------------------------
(* B2: validates a trace recorded from the implementation (one event per linearisation point,    *)
(* totally ordered by a sequence number drawn under the protecting lock) against LocustStore.tla. *)
(* Every event must be an enabled step of the specification with the logged arguments; the       *)
(* invariants of the specification are evaluated in every state along the way.                   *)
(* Run with TRACE=<ndjson> in the environment, -workers 1, deadlock checking off.                *)
EXTENDS LocustStore, Json, IOUtils

Rec == ndJsonDeserialize(IOEnv.TRACE)

VARIABLE l
tvars == <<vars, l>>

Ev(e) == l <= Len(Rec) /\ Rec[l].ev = e /\ l' = l + 1
R == Rec[l]
C == "c1"     \* ingestion is serialised by the wal_size mutex from lock to acknowledgement

SeqSet(sq) == {sq[i] : i \in 1..Len(sq)}
Chunks(sq) == {[t |-> sq[i].t, n |-> sq[i].n, names |-> SeqSet(sq[i].names)] : i \in 1..Len(sq)}
PartIds(S) == {[id |-> p.id, off |-> p.off, len |-> p.len] : p \in S}
PartIdsOfSeq(sq) == {[id |-> sq[i].id, off |-> sq[i].off, len |-> sq[i].len] : i \in 1..Len(sq)}

\* the database is opened on an empty directory
TInit == /\ Init /\ l = 1

TRecStart == /\ Ev("RecStart")
             /\ IF up THEN Shutdown
                ELSE IF rec.pc = "down" THEN UNCHANGED vars
                ELSE FALSE
TRecMeta == /\ Ev("RecMeta") /\ RecLoadMeta
            /\ ms'.earliest = R.cursor
            /\ {[t |-> p.t, id |-> p.id] : p \in ms'.parts} = {[t |-> R.parts[i].t, id |-> R.parts[i].id] : i \in 1..Len(R.parts)}
TRecWal == /\ Ev("RecWal")
           /\ \E w \in rec.todoWal : w.id = R.id /\ RecWal(w) /\ (R.deleted <=> w.id < ms.earliest)
TRecTables == /\ Ev("RecTables") /\ RecTables
              /\ \A i \in 1..Len(R.tables) :
                    /\ R.tables[i].t \in tabs'
                    /\ PartIds(parts'[R.tables[i].t]) = PartIdsOfSeq(R.tables[i].parts)
              /\ tabs' = {R.tables[i].t : i \in 1..Len(R.tables)} \cup {MT}
TRecReplay == /\ Ev("RecReplay") /\ RecReplay /\ rec'.last = R.id
TRecUp == /\ Ev("RecUp") /\ RecUp
          /\ \A i \in 1..Len(R.tables) :
                /\ SumRows(R.tables[i].t, buffer[R.tables[i].t]) = R.tables[i].buffer
                /\ PartIds(parts[R.tables[i].t]) = PartIdsOfSeq(R.tables[i].parts)
                /\ (R.tables[i].loaded = colNames[R.tables[i].t].loaded)
                /\ (R.tables[i].loaded => SeqSet(R.tables[i].names) = colNames[R.tables[i].t].names)
          /\ tabs = {R.tables[i].t : i \in 1..Len(R.tables)}

TIngestLock == Ev("IngestLock") /\ IngestLock(C) /\ ((R.wal_size = 0) <=> (walAcct = 0))
TIngestCatalogue == /\ Ev("IngestCatalogue")
                    /\ IngestCatalogue(C, Chunks(R.user))
                    /\ reqDef'[ing[C].req] = Chunks(R.full)     \* catalogue rows computed by the code = those of the spec
TWalAssign == Ev("WalAssign") /\ WalAssign(C) /\ ing'[C].walId = R.id
TWalStored == Ev("WalStored") /\ WalStore(C) /\ ing[C].walId = R.id
\* (during recovery the replay loop applies tables one by one; the specification replays a segment in
\* one step at the RecReplay event that follows, so those events are stuttering steps)
TApplyTable == /\ Ev("ApplyTable")
               /\ IF rec.pc = "replay" THEN UNCHANGED vars
                  ELSE /\ ApplyTable(C, R.t)
                       /\ RowsOf(ing[C].req, R.t) = R.rows
                       /\ SumRows(R.t, buffer'[R.t]) = R.buffer
TIngestAck == Ev("IngestAck") /\ IngestAck(C) /\ ((R.wal_size = 0) <=> (walAcct' = 0))

\* (the flush thread takes the list of waiting force_flush callers some instructions before the
\* FlushTrigger event is emitted; callers that arrive in between stay pending.  Whether the size /
\* file-count thresholds were exceeded is computed from unlocked reads and is not re-derived here)
TForceFlushCall == /\ Ev("ForceFlushCall") /\ up /\ pendingFlush' = pendingFlush + 1
                   /\ UNCHANGED <<up, tabs, buffer, frozen, parts, nextPid, nextOff, colNames, ms, walAcct, walLock, ing, fl, rec, qs, disk, histv>>
TFlushTrigger == /\ Ev("FlushTrigger") /\ up /\ fl.pc = "idle" /\ R.pending <= pendingFlush
                 /\ fl' = [IdleFl EXCEPT !.pc = "triggered", !.waiters = R.pending]
                 /\ pendingFlush' = pendingFlush - R.pending
                 /\ UNCHANGED <<up, tabs, buffer, frozen, parts, nextPid, nextOff, colNames, ms, walAcct, walLock, ing, rec, qs, disk, histv>>
TFlushLock == /\ Ev("FlushLock") /\ FlushLock /\ fl'.lo = R.lo /\ fl'.hi = R.hi /\ fl'.tables = SeqSet(R.tables)
TFreeze == Ev("Freeze") /\ FreezeTable(R.t) /\ SumRows(R.t, frozen'[R.t]) = R.len
TFlushFreeze == Ev("FlushFreeze") /\ FlushFreeze
TBatch == /\ Ev("Batch") /\ Batch(R.t)
          /\ nextPid[R.t] = R.pid /\ nextOff[R.t] = R.off /\ SumRows(R.t, frozen[R.t]) = R.len
TFlushTable == /\ Ev("FlushTable") /\ Plan(R.t)
               /\ (R.batched <=> R.t \in fl.batched)
               /\ IF R.plan_none THEN fl'.plans = fl.plans
                  ELSE \E pl \in fl'.plans \ fl.plans : pl.cid = R.cid /\ {p.id : p \in pl.old} = SeqSet(R.parts)
TPersistSub == /\ Ev("PersistSub")
               /\ IF R.compaction
                    THEN \E pl \in fl.plans : pl.t = R.t /\ pl.cid = R.pid /\ CompactPersist(pl, R.key)
                    ELSE \E p \in fl.newParts : p.t = R.t /\ p.id = R.pid /\ PersistSub(p, R.key)
TMsInsert == /\ Ev("MsInsert") /\ \E p \in fl.newParts : p.t = R.t /\ p.id = R.pid /\ p.off = R.off /\ p.len = R.len /\ MsInsert(p)
TCompactNames == /\ Ev("CompactNames")
                 /\ \E pl \in fl.plans : /\ pl.t = R.t /\ pl.cid = R.cid /\ CompactNames(pl)
                                         /\ colNames'[R.t].names = SeqSet(R.cols)   \* the name set compaction iterates = the spec's
TCompactSwap == /\ Ev("CompactSwap")
                /\ \E pl \in fl.plans : /\ pl.t = R.t /\ pl.cid = R.cid /\ CompactSwap(pl)
                                        /\ Merged(pl).off = R.off /\ Merged(pl).len = R.len
                                        /\ {p.id : p \in pl.old} = SeqSet(R.old)
TCompactMs == /\ Ev("CompactMs")
              /\ \E pl \in fl.plans : /\ pl.t = R.t /\ pl.cid = R.cid /\ CompactMs(pl)
                                      /\ (fl'.toDelete \ fl.toDelete) = {[t |-> R.t, id |-> R.del[i].pid, key |-> R.del[i].key] : i \in 1..Len(R.del)}
TPersistMeta == /\ Ev("PersistMeta") /\ PersistMeta
                /\ dMeta'.earliest = R.cursor
                /\ {[t |-> p.t, id |-> p.id] : p \in dMeta'.parts} = {[t |-> R.parts[i].t, id |-> R.parts[i].id] : i \in 1..Len(R.parts)}
TDeleteOrphan == Ev("DeleteOrphan") /\ DeleteOrphan([t |-> R.t, id |-> R.pid, key |-> R.key])
TDeleteWal == Ev("DeleteWal") /\ DeleteWal(R.id)
TFlushDone == Ev("FlushDone") /\ FlushDone

\* Table::snapshot under the three table locks: what the query saw must be the state of the specification
\* (snapshots taken by the replay loop of recovery - lazy loading of a name set between the per-table
\* applications of one segment - fall inside the specification's atomic RecReplay step: stuttering)
TSnapshot == /\ Ev("Snapshot")
             /\ \/ rec.pc = "replay"
                \* a table that the ingestion holding the lock is just creating (tables are created before
                \* the IngestCatalogue event is emitted) exists already, and is empty
                \/ /\ R.t \notin tabs /\ ing[C].pc = "locked"
                   /\ R.parts = <<>> /\ R.frozen = 0 /\ R.buffer = 0
                \/ /\ R.t \in tabs
                   /\ PartIds(parts[R.t]) = PartIdsOfSeq(R.parts)
                   /\ SumRows(R.t, frozen[R.t]) = R.frozen
                   /\ SumRows(R.t, buffer[R.t]) = R.buffer
             /\ UNCHANGED vars
TEvict == /\ Ev("Evict")
          /\ IF \E x \in parts[R.t] : x.id = R.pid /\ ~x.cold THEN Evict(R.t, R.pid) ELSE UNCHANGED vars

\* a new run on a fresh directory
TReset == /\ Ev("Reset")
          /\ up' = TRUE /\ tabs' = {MT}
          /\ buffer' = [t \in AllT |-> <<>>] /\ frozen' = [t \in AllT |-> <<>>] /\ parts' = [t \in AllT |-> {}]
          /\ nextPid' = [t \in AllT |-> 0] /\ nextOff' = [t \in AllT |-> 0] /\ colNames' = [t \in AllT |-> FreshCN(t)]
          /\ ms' = EmptyMs /\ walAcct' = 0 /\ walLock' = "free" /\ ing' = [c \in Clients |-> IdleIng] /\ fl' = IdleFl
          /\ pendingFlush' = 0 /\ rec' = IdleRec /\ qs' = [q \in QClients |-> IdleQ]
          /\ dMeta' = NoMeta /\ dWal' = {} /\ dPart' = {} /\ dTmp' = {}
          /\ nreq' = 0 /\ reqDef' = <<>> /\ logical' = [t \in AllT |-> <<>>] /\ ncrash' = 0 /\ broken' = ""

TNext == \/ TReset \/ TRecStart \/ TRecMeta \/ TRecWal \/ TRecTables \/ TRecReplay \/ TRecUp
         \/ TIngestLock \/ TIngestCatalogue \/ TWalAssign \/ TWalStored \/ TApplyTable \/ TIngestAck
         \/ TForceFlushCall \/ TFlushTrigger \/ TFlushLock \/ TFreeze \/ TFlushFreeze \/ TBatch \/ TFlushTable
         \/ TPersistSub \/ TMsInsert \/ TCompactNames \/ TCompactSwap \/ TCompactMs \/ TPersistMeta
         \/ TDeleteOrphan \/ TDeleteWal \/ TFlushDone \/ TSnapshot \/ TEvict
TSpec == TInit /\ [][TNext]_tvars

\* every event consumed?  (diameter counts the initial state)
Accepted == IF TLCGet("stats").diameter - 1 = Len(Rec) THEN TRUE
            ELSE /\ PrintT(<<"TRACE-REJECTED", TLCGet("stats").diameter, Len(Rec),
                             IF TLCGet("stats").diameter <= Len(Rec) THEN Rec[TLCGet("stats").diameter] ELSE "end">>)
                 /\ FALSE
=============================================================================
