---------------------------- MODULE MC_crash ----------------------------
(* One client issuing ingest / force_flush one after the other; the process may die between any two *)
(* steps - including between the create / write / rename steps of a log or catalogue store and      *)
(* between any two steps of recovery - at most MaxCrash times.  TLC checks that what is on disk     *)
(* always recovers to the acknowledged requests plus at most the in-flight one taken whole          *)
(* (Durable, and `broken` set by RecUp otherwise), and that recovery terminates.                    *)
EXTENDS LocustStore
CONSTANTS MaxOps, MaxCrash
VARIABLES nops

MCShapes == { {[t |-> "ta", n |-> 2, names |-> {"a"}]},
              {[t |-> "ta", n |-> 1, names |-> {"a", "c"}], [t |-> "tb", n |-> 1, names |-> {"c"}]} }
MCAvoid == {}

cvars == <<vars, nops>>
Ready == up /\ Quiet

Start ==
    /\ Ready /\ nops < MaxOps
    /\ \/ IngestLock("c1")
       \/ ForceFlushCall
    /\ nops' = nops + 1
Continue ==
    /\ ~Ready
    /\ \/ (\E sh \in MCShapes : IngestCatalogue("c1", sh)) \/ WalAssign("c1") \/ WalStore("c1") \/ WalTmpCreate("c1") \/ WalTmpWrite("c1") \/ WalRename("c1")
       \/ (\E t \in AllT : ApplyTable("c1", t)) \/ IngestAck("c1")
       \/ FlushNext
       \/ RecNext
    /\ UNCHANGED nops
Die == ncrash < MaxCrash /\ Crash /\ UNCHANGED nops
CrashNext == Start \/ Continue \/ Die
CrashInit == Init /\ nops = 0
CrashSpec == CrashInit /\ [][CrashNext]_cvars
CrashLiveSpec == CrashSpec /\ WF_cvars(RecNext /\ UNCHANGED nops)

TSeq == SetToSortSeq(AllT, LAMBDA a, b : Len(a) < Len(b) \/ (Len(a) = Len(b) /\ a = "ta" /\ b = "tb") \/ (Len(a) = Len(b) /\ a = "_meta_columns_ta"))
Idx(t) == CHOOSE i \in 1..Len(TSeq) : TSeq[i] = t
MinT(S) == CHOOSE t \in S : \A u \in S : Idx(t) <= Idx(u)
\* the same canonical order of commuting per-table steps as in MC_hist, except that the order in which
\* partition files are written and log segments deleted stays free (those orders are observable by a crash)
Canon ==
    /\ (fl'.todoFreeze # fl.todoFreeze /\ fl.todoFreeze # {}) => (fl.todoFreeze \ fl'.todoFreeze) = {MinT(fl.todoFreeze)}
    /\ (fl.pc = "batching" /\ fl'.pc = "batching" /\ fl' # fl /\ fl.todo # {}) =>
           \/ (fl.todo \ fl'.todo) = {MinT(fl.todo)}
           \/ fl'.batched = fl.batched \cup {MinT(fl.todo)}
    /\ \A c \in Clients : (ing'[c].toApply # ing[c].toApply /\ ing[c].toApply # {}) =>
           (ing[c].toApply \ ing'[c].toApply) = {MinT(ing[c].toApply)}

Bound == \A t \in AllT : nextPid[t] <= 2 * MaxOps + 2
RecoveryTerminates == (rec.pc = "down") ~> (rec.pc = "up")
=============================================================================
