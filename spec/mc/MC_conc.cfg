SPECIFICATION ConcSpec
CONSTANTS
  UT = {"ta"}
  Shapes <- MCShapes
  SubKeys = {"all"}
  Clients = {"c1"}
  QClients = {"q1"}
  MaxReq = 2
  MaxWal = 100
  MaxWalFiles = 100
  CombineMode = "pairs"
  FsSteps = FALSE
  Dev = {}
  Avoid <- MCAvoid
  MaxFlush = 2
CONSTRAINT Bound
INVARIANTS ContentOK Tiles ColumnsKept NoFailure SnapshotIsPrefix Durable
CHECK_DEADLOCK FALSE
