------------------------------- MODULE MC_xor -------------------------------
(* XorFloat.tla at B = 15 (sign, 11 exponent bits, 3 mantissa bits), over a pool of words (four sign/exponent   *)
(* patterns x all mantissas, plus the extremes); every sequence is checked for every mantissa setting and three *)
(* regret limits, and printed with its tokens for the conformance replay (the word lifted by 49 bits is an f64). *)
EXTENDS XorFloat, Json
CONSTANTS MaxLen, Pool
VARIABLES fs
Init == fs \in UNION {[1..n -> Pool] : n \in 0..MaxLen}
Next == UNCHANGED fs
Spec == Init /\ [][Next]_fs
Regrets == {0, 3, 100}
Inv == \A m \in -1..MW : \A r \in Regrets : Keeps(fs, m, r) /\ FieldsOK(fs, m, r)
Emit == PrintT(<<"REPLAY", ToJson([fs |-> fs, enc |-> [m \in 0..(MW + 1) |-> [r \in 1..3 |->
            Encode(fs, m - 1, CASE r = 1 -> 0 [] r = 2 -> 3 [] OTHER -> 100).toks]]])>>)
=============================================================================
