SPECIFICATION Spec
CONSTANTS
  Sym = {0, 1, 2}
  MaxLen = 3
  NoChecksum = FALSE
INVARIANTS Inv Emit
CHECK_DEADLOCK FALSE
