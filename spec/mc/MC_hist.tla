---------------------------- MODULE MC_hist ----------------------------
(* Sequential API histories over {ingest(shape), force_flush, evict_cache, restart}:        *)
(* one client, an operation starts only when the previous one has returned.  Used for      *)
(*  - model checking the invariants over all histories (VIEW hides the history variables), *)
(*  - emitting every history, with the specification's content after each operation, as    *)
(*    one JSON line for replay against the implementation (B1).                            *)
EXTENDS LocustStore, Json
CONSTANTS MaxOps, Emit
VARIABLES hist, posts

MCShapes == { {[t |-> "ta", n |-> 2, names |-> {"a", "sb"}]},
              {[t |-> "ta", n |-> 1, names |-> {"a", "c"}]},
              {[t |-> "ta", n |-> 3, names |-> {"sb"}]},
              {[t |-> "tb", n |-> 1, names |-> {"c"}], [t |-> "ta", n |-> 2, names |-> {"c", "sb"}]} }
MCAvoid == {}

hvars == <<vars, hist, posts>>
Ready == up /\ Quiet

\* evict_cache(): every cached column of every partition known to the LRU
EvictAll ==
    /\ parts' = [t \in AllT |-> {[x EXCEPT !.cold = TRUE] : x \in parts[t]}]
    /\ UNCHANGED <<up, tabs, buffer, frozen, nextPid, nextOff, colNames, ms, walAcct, walLock, ing, fl, pendingFlush, rec, qs, disk, histv>>

ShapeId(sh) == CHOOSE i \in 1..Cardinality(MCShapes) : SetToSeq(MCShapes)[i] = sh

Start ==
    /\ Ready /\ Len(hist) < MaxOps
    /\ \/ IngestLock("c1") /\ hist' = Append(hist, [op |-> "ingest", req |-> nreq + 1])
       \/ ForceFlushCall /\ hist' = Append(hist, [op |-> "flush", req |-> 0])
       \/ (\E t \in AllT : parts[t] # {}) /\ EvictAll /\ hist' = Append(hist, [op |-> "evict", req |-> 0])
       \/ Shutdown /\ hist' = Append(hist, [op |-> "restart", req |-> 0])
Continue ==
    /\ ~Ready
    /\ \/ (\E sh \in MCShapes : IngestCatalogue("c1", sh)) \/ WalAssign("c1") \/ WalStore("c1") \/ (\E t \in AllT : ApplyTable("c1", t)) \/ IngestAck("c1")
       \/ FlushNext
       \/ RecNext
    /\ hist' = hist
SeqNext == (Start \/ Continue) /\ posts' = IF (up /\ Quiet)' THEN Append(posts, logical') ELSE posts
SeqInit == Init /\ hist = <<>> /\ posts = <<>>
SeqSpec == SeqInit /\ [][SeqNext]_hvars

\* Partial-order reduction for the sequential configuration: with one flush thread, one I/O thread and
\* one client the per-table steps of a stage run one after the other in hash-map order; steps on
\* different tables commute, so one canonical order (by table name) represents them all.
TSeq == SetToSortSeq(AllT, LAMBDA a, b : Len(a) < Len(b) \/ (Len(a) = Len(b) /\ a = "ta" /\ b = "tb") \/ (Len(a) = Len(b) /\ a = "_meta_columns_ta"))
Idx(t) == CHOOSE i \in 1..Len(TSeq) : TSeq[i] = t
MinT(S) == CHOOSE t \in S : \A u \in S : Idx(t) <= Idx(u)
Shrunk(old, new) == old \ new
Canon ==
    /\ (fl'.todoFreeze # fl.todoFreeze /\ fl.todoFreeze # {}) => Shrunk(fl.todoFreeze, fl'.todoFreeze) = {MinT(fl.todoFreeze)}
    /\ (fl.pc = "batching" /\ fl'.pc = "batching" /\ fl' # fl /\ fl.todo # {}) =>
           \/ Shrunk(fl.todo, fl'.todo) = {MinT(fl.todo)}
           \/ fl'.batched = fl.batched \cup {MinT(fl.todo)}
    /\ (PersistPhase /\ fl'.persisted # fl.persisted) =>
           LET pend == {p.t : p \in {x \in fl.newParts : PKey(x) \notin fl.inserted}}
           IN \A x \in (fl'.persisted \ fl.persisted) : x.p.t = MinT(pend)
    /\ (PersistPhase /\ fl'.inserted # fl.inserted) =>
           LET pend == {p.t : p \in {x \in fl.newParts : PKey(x) \notin fl.inserted}}
           IN \A x \in (fl'.inserted \ fl.inserted) : x.t = MinT(pend)
    /\ (CompactPhase /\ fl'.pc = "batching" /\ fl'.plans # fl.plans /\ fl.todo = {}) =>
           LET pend == {pl.t : pl \in {x \in fl.plans : x.st # "done"}}
           IN \A x \in (fl'.plans \ fl.plans) : x.t = MinT(pend)
    /\ \A c \in Clients : (ing'[c].toApply # ing[c].toApply /\ ing[c].toApply # {}) =>
           Shrunk(ing[c].toApply, ing'[c].toApply) = {MinT(ing[c].toApply)}
    /\ (fl.pc = "meta" /\ fl'.pc = "meta") => \A i \in Shrunk(fl.todo, fl'.todo) : \A j \in fl.todo : i <= j
    /\ (rec.pc = "wal" /\ rec'.pc = "wal") => \A w \in Shrunk(rec.todoWal, rec'.todoWal) : \A v \in rec.todoWal : w.id <= v.id

Bound == \A t \in AllT : nextPid[t] <= 2 * MaxOps + 2
View == vars

EmitInv == (Emit /\ Len(hist) = MaxOps /\ Len(posts) = MaxOps) =>
             PrintT(<<"REPLAY", ToJson([ops |-> hist, posts |-> posts, reqDef |-> reqDef])>>)
=============================================================================
