SPECIFICATION Spec
CONSTANTS
  Part = "edits"
INVARIANTS Emit
CHECK_DEADLOCK FALSE
