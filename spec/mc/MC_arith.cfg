SPECIFICATION Spec
CONSTANTS
  Depth2 = FALSE
INVARIANTS Emit
CHECK_DEADLOCK FALSE
