------------------------------ MODULE QuerySem ------------------------------
(***************************************************************************)
(* Logical meaning of the supported SQL fragment over a table = sequence  *)
(* of rows.  Cells are abstract: NULL or an index into an ordered domain; *)
(* the harness concretises an index by a strictly monotone map per column *)
(* type and encoding class, so the truth value of every comparison, the   *)
(* order of every sort and the grouping computed here are the truth for   *)
(* the concrete data as well.                                              *)
(*   - three-valued predicates: a comparison with NULL is unknown, WHERE  *)
(*     keeps the rows whose predicate is TRUE                              *)
(*   - grouping: NULL is a group of its own; COUNT / SUM / MIN / MAX / AVG *)
(*     ignore NULL inputs; SUM, MIN, MAX, AVG over no input are NULL       *)
(*   - ORDER BY: NULL after every value (first when descending)            *)
(***************************************************************************)
EXTENDS Integers, Sequences, FiniteSets, TLC, SequencesExt, FiniteSetsExt

NULL == -1000
IsNull(c) == c = NULL

\* ---------------------------------------------------------------- expressions
\* [k |-> "col", c |-> name] | [k |-> "const", v |-> index]
Col(c) == [k |-> "col", c |-> c]
Const(v) == [k |-> "const", v |-> v]
EvalE(e, row) == IF e.k = "col" THEN row[e.c] ELSE e.v

\* ---------------------------------------------------------------- predicates, three-valued
Cmp(op, a, b) == CASE op = "=" -> a = b [] op = "<>" -> a # b [] op = "<" -> a < b
                   [] op = "<=" -> a <= b [] op = ">" -> a > b [] op = ">=" -> a >= b
B3(b) == IF b THEN "T" ELSE "F"
And3(a, b) == IF a = "F" \/ b = "F" THEN "F" ELSE IF a = "T" /\ b = "T" THEN "T" ELSE "U"
Or3(a, b) == IF a = "T" \/ b = "T" THEN "T" ELSE IF a = "F" /\ b = "F" THEN "F" ELSE "U"
Not3(a) == IF a = "T" THEN "F" ELSE IF a = "F" THEN "T" ELSE "U"

Atom(op, l, r) == [k |-> "cmp", op |-> op, l |-> l, r |-> r]
IsNullP(e) == [k |-> "isnull", e |-> e]
NotNullP(e) == [k |-> "notnull", e |-> e]
AndP(p, q) == [k |-> "and", l |-> p, r |-> q]
OrP(p, q) == [k |-> "or", l |-> p, r |-> q]
NotP(p) == [k |-> "not", p |-> p]
TrueP == [k |-> "true"]

EvalAtom(p, row) ==
    CASE p.k = "cmp" -> LET a == EvalE(p.l, row) b == EvalE(p.r, row)
                        IN IF IsNull(a) \/ IsNull(b) THEN "U" ELSE B3(Cmp(p.op, a, b))
      [] p.k = "isnull" -> B3(IsNull(EvalE(p.e, row)))
      [] p.k = "notnull" -> B3(~IsNull(EvalE(p.e, row)))
      [] p.k = "true" -> "T"
\* predicates are trees of depth <= 2 over atoms (enough for the bounded families; keeps evaluation non-recursive)
\* dev = TRUE evaluates with the named deviation OrUnknownIsUnknown (known finding KF4: the engine's OR
\* yields unknown as soon as one operand is unknown, so TRUE OR NULL does not select the row)
Or3D(a, b, dev) == IF dev /\ (a = "U" \/ b = "U") THEN "U" ELSE Or3(a, b)
EvalP1(p, row) == IF p.k = "not" THEN Not3(EvalAtom(p.p, row)) ELSE EvalAtom(p, row)
EvalPD(p, row, dev) ==
    CASE p.k = "and" -> And3(EvalP1(p.l, row), EvalP1(p.r, row))
      [] p.k = "or" -> Or3D(EvalP1(p.l, row), EvalP1(p.r, row), dev)
      [] p.k = "not" -> IF p.p.k \in {"and", "or"}
                          THEN Not3(IF p.p.k = "and" THEN And3(EvalP1(p.p.l, row), EvalP1(p.p.r, row))
                                    ELSE Or3D(EvalP1(p.p.l, row), EvalP1(p.p.r, row), dev))
                          ELSE Not3(EvalAtom(p.p, row))
      [] OTHER -> EvalAtom(p, row)
EvalP(p, row) == EvalPD(p, row, FALSE)

\* WHERE: positions (1-based) of the rows for which the predicate is TRUE, in table order
Filter(p, tbl) == SelectSeq([i \in 1..Len(tbl) |-> i], LAMBDA i : EvalP(p, tbl[i]) = "T")
FilterD(p, tbl, dev) == SelectSeq([i \in 1..Len(tbl) |-> i], LAMBDA i : EvalPD(p, tbl[i], dev) = "T")

\* ---------------------------------------------------------------- grouping and aggregates
\* aggregate: [f |-> "count1"] | [f |-> "count" | "sum" | "min" | "max" | "avg", c |-> column]
RECURSIVE SumSeq(_)
SumSeq(sq) == IF sq = <<>> THEN 0 ELSE Head(sq) + SumSeq(Tail(sq))
NonNull(c, tbl, idxs) == SelectSeq([j \in 1..Len(idxs) |-> tbl[idxs[j]][c]], LAMBDA v : ~IsNull(v))
MinSeq(sq) == CHOOSE x \in Range(sq) : \A y \in Range(sq) : x <= y
MaxSeq(sq) == CHOOSE x \in Range(sq) : \A y \in Range(sq) : x >= y
\* SUM and AVG are reported as (sum of indices, number of inputs): the harness applies the affine
\* concretisation a*k + b to them (sum = a*sumk + b*cnt), which is exact in i128
Agg(a, tbl, idxs) ==
    IF a.f = "count1" THEN [kind |-> "int", v |-> Len(idxs), cnt |-> 0]
    ELSE LET vs == NonNull(a.c, tbl, idxs) IN
         CASE a.f = "count" -> [kind |-> "int", v |-> Len(vs), cnt |-> 0]
           [] a.f = "sum" -> IF vs = <<>> THEN [kind |-> "null", v |-> 0, cnt |-> 0] ELSE [kind |-> "sum", v |-> SumSeq(vs), cnt |-> Len(vs)]
           [] a.f = "avg" -> IF vs = <<>> THEN [kind |-> "null", v |-> 0, cnt |-> 0] ELSE [kind |-> "avg", v |-> SumSeq(vs), cnt |-> Len(vs)]
           [] a.f = "min" -> IF vs = <<>> THEN [kind |-> "null", v |-> 0, cnt |-> 0] ELSE [kind |-> "cell", v |-> MinSeq(vs), cnt |-> 0]
           [] a.f = "max" -> IF vs = <<>> THEN [kind |-> "null", v |-> 0, cnt |-> 0] ELSE [kind |-> "cell", v |-> MaxSeq(vs), cnt |-> 0]

\* one result row per distinct combination of the grouping columns among the filtered rows
GroupAgg(keys, aggs, p, tbl) ==
    LET idxs == Filter(p, tbl)
        KeyOf(i) == [j \in 1..Len(keys) |-> tbl[i][keys[j]]]
        ks == {KeyOf(idxs[j]) : j \in 1..Len(idxs)}
        Members(k) == SelectSeq(idxs, LAMBDA i : KeyOf(i) = k)
    IN IF keys = <<>>
         \* without grouping expressions there is one combination when some row passes the filter, and none otherwise
         \* (the property asks for one row per distinct combination among the filtered rows)
         THEN IF idxs = <<>> THEN {} ELSE {[key |-> <<>>, aggs |-> [j \in 1..Len(aggs) |-> Agg(aggs[j], tbl, idxs)]]}
         ELSE {[key |-> k, aggs |-> [j \in 1..Len(aggs) |-> Agg(aggs[j], tbl, Members(k))]] : k \in ks}

\* ---------------------------------------------------------------- ORDER BY
\* sort key: [c |-> column, desc |-> BOOLEAN]; NULL after every value, first when descending
LessCell(a, b, desc) ==
    IF desc THEN (IF IsNull(a) THEN ~IsNull(b) ELSE (~IsNull(b) /\ a > b))
    ELSE (IF IsNull(a) THEN FALSE ELSE (IsNull(b) \/ a < b))
RECURSIVE LessKeys(_, _, _, _)
LessKeys(ra, rb, ks, j) ==
    IF j > Len(ks) THEN FALSE
    ELSE LET a == ra[ks[j].c] b == rb[ks[j].c] IN
         IF LessCell(a, b, ks[j].desc) THEN TRUE
         ELSE IF LessCell(b, a, ks[j].desc) THEN FALSE
         ELSE LessKeys(ra, rb, ks, j + 1)
\* the filtered rows in key order; rows that tie on all keys are listed in table order (any order is admissible)
OrderBy(ks, p, tbl) ==
    LET idxs == Filter(p, tbl)
    IN SetToSortSeq(Range(idxs), LAMBDA a, b : LessKeys(tbl[a], tbl[b], ks, 1) \/ (~LessKeys(tbl[b], tbl[a], ks, 1) /\ a < b))
\* ranks: rows that tie on all keys share a rank (position of the first member of their tie group)
TieRank(ks, tbl, sorted) ==
    [j \in 1..Len(sorted) |-> Min({i \in 1..j : \A m \in i..j : ~LessKeys(tbl[sorted[i]], tbl[sorted[m]], ks, 1)})]
=============================================================================
