use lvh::db; use lvh::evbuf::*; use lvh::util::Outcome; use lvh::cells::Cell;
fn main() {
    lvh::util::quiet_panics();
    let db = db::open(None, &db::Cfg::default()).done().unwrap();
    let s: Vec<String> = (0..6).map(|_| "03".to_string()).collect();
    let t = TableData { name: "t".into(), len: 6, cols: vec![("id".into(), ColData::I64((0..6).collect())), ("s".into(), ColData::Str(s))] };
    let _ = db::ingest(&db, event_buffer(&[t]));
    for sql in std::env::args().skip(1) {
        match db::query(&db, &sql) { Outcome::Done(Ok(a)) => println!("{} -> {:?}", sql, a.rows.len()), o => println!("{} -> {:?} {:?}", sql, o.describe(), lvh::util::take_panics()) }
    }
}
