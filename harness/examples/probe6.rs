use lvh::db; use lvh::evbuf::*; use lvh::util::Outcome;
fn main() {
    lvh::util::quiet_panics();
    let aggs = ["COUNT(1)","COUNT(n)","SUM(i)","SUM(n)","MIN(i)","MAX(n)","MIN(f)","MAX(nf)","AVG(i)","SUM(f)","SUM(nf)","COUNT(ns)"];
    let mk = || { let db = db::open(None, &db::Cfg::default()).done().unwrap();
        let t = TableData { name: "t".into(), len: 6, cols: vec![
        ("id".into(), ColData::I64((0..6).collect())), ("i".into(), ColData::I64(vec![2,4,6,0,2,4])),
        ("f".into(), ColData::Dense(vec![0.0,4.0,2.0,6.0,0.0,4.0])),
        ("s".into(), ColData::Str(vec!["06".into(),"03".into(),"05".into(),"07".into(),"06".into(),"03".into()])),
        ("ns".into(), ColData::Mixed(vec![lvh::cells::Cell::Str("a".into()), lvh::cells::Cell::Null, lvh::cells::Cell::Str("b".into()), lvh::cells::Cell::Str("a".into()), lvh::cells::Cell::Null, lvh::cells::Cell::Str("c".into())])),
        ("n".into(), ColData::SparseI64(vec![(0,4),(1,6),(3,0),(4,2)])), ("nf".into(), ColData::Sparse(vec![(0,0.0),(1,2.0),(2,4.0)]))] };
        let _ = db::ingest(&db, event_buffer(&[t])); db };
    // pairs
    for a in 0..aggs.len() { for b in (a+1)..aggs.len() {
        let db = mk();
        let sql = format!("SELECT i, {}, {} FROM t", aggs[a], aggs[b]);
        lvh::util::take_panics();
        match db::query(&db, &sql) { Outcome::Done(Ok(_)) => {}, Outcome::Done(Err(e)) => println!("{} -> ERR {} {:?}", sql, &e[..e.len().min(120)], lvh::util::take_panics()), o => println!("{} -> {} {:?}", sql, o.describe(), lvh::util::take_panics()) }
        std::mem::forget(db);
    }}
    println!("pairs done");
}
