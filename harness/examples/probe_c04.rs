use lvh::qsem;
use serde_json::Value;
fn main() {
    let src = std::env::args().nth(1).unwrap();
    let table: i64 = std::env::args().nth(2).unwrap().parse().unwrap();
    let class: usize = std::env::args().nth(3).unwrap().parse().unwrap();
    let lay: usize = std::env::args().nth(4).unwrap().parse().unwrap();
    let sqls: Vec<String> = std::env::args().skip(5).collect();
    for l in std::fs::read_to_string(&src).unwrap().lines() {
        let v: Value = serde_json::from_str(l).unwrap();
        if v["kind"] == "table" && v["idx"].as_i64() == Some(table) {
            let rows = v["rows"].as_array().unwrap();
            for sql in &sqls {
                let b = qsem::build(rows, class, &qsem::layouts()[lay]).unwrap();
                let r = lvh::db::query(&b.db, sql);
                println!("{} -> {:?}", sql, r.done().map(|r| r.map(|a| a.rows.iter().map(|r| r.iter().map(|c| c.short()).collect::<Vec<_>>()).collect::<Vec<_>>())));
                println!("  panics: {:?}", lvh::util::take_panics());
                std::mem::forget(b);
            }
        }
    }
    std::process::exit(0);
}
