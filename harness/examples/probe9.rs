use lvh::db; use lvh::evbuf::*; use lvh::util::Outcome;
fn main() {
    lvh::util::quiet_panics();
    let db = db::open(None, &db::Cfg::default()).done().unwrap();
    let t = TableData { name: "t".into(), len: 3, cols: vec![("id".into(), ColData::I64(vec![0,1,2])), ("a".into(), ColData::I64(vec![1, i64::MAX-1, -5])), ("b".into(), ColData::I64(vec![7, 0, i64::MIN])), ("n".into(), ColData::SparseI64(vec![(0, 3)]))] };
    let _ = db::ingest(&db, event_buffer(&[t]));
    for sql in std::env::args().skip(1) {
        lvh::util::take_panics();
        match db::query(&db, &sql) { Outcome::Done(Ok(a)) => println!("{} -> {:?}", sql, a.rows), Outcome::Done(Err(e)) => println!("{} -> ERR {} {:?}", sql, &e[..e.len().min(160)], lvh::util::take_panics()), o => println!("{} -> {} {:?}", sql, o.describe(), lvh::util::take_panics()) }
    }
}
