fn main() {
    lvh::util::quiet_panics();
    let args: Vec<String> = std::env::args().collect();
    let line = std::io::BufRead::lines(std::io::BufReader::new(std::fs::File::open(&args[1]).unwrap())).nth(args[2].parse().unwrap()).unwrap().unwrap();
    let b: lvh::c01::Behaviour = serde_json::from_str(&line).unwrap();
    let r = lvh::c01::run(&b, args[3].parse().unwrap(), args[4].parse().unwrap(), &args[5], args[6].parse().unwrap());
    println!("{}", r);
}
