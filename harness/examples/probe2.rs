use lvh::db; use lvh::evbuf::*; use lvh::util::Outcome;
fn main() {
    lvh::util::quiet_panics();
    let db = db::open(None, &db::Cfg::default()).done().unwrap();
    let n = 40;
    let t = TableData { name: "t".into(), len: n, cols: vec![("id".into(), ColData::I64((0..n as i64).collect())), ("s".into(), ColData::Str((0..n).map(|i| format!("v{:02}", (i % 4) * 2)).collect()))] };
    let _ = db::ingest(&db, event_buffer(&[t]));
    for sql in std::env::args().skip(1) {
        match db::query(&db, &sql) { Outcome::Done(Ok(a)) => println!("{} -> {:?}", sql, a.rows.len()), Outcome::Done(Err(e)) => println!("{} -> ERR {}", sql, &e[..e.len().min(300)]), o => println!("{} -> {}", sql, o.describe()) }
    }
}
