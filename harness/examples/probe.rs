use locustdb::verif_api::*;
fn main() {
    let c = build_column("x", vec![Push::Strs(vec!["u1_a".into()]), Push::Nulls(1), Push::Strs(vec!["u2_b".into()])]);
    println!("{}", column_signature(&c));
    println!("{:?}", decode_column(&c));
    let c = build_column("x", vec![Push::Nulls(2), Push::Strs(vec!["k1".into(), "k1".into(),"k1".into(),"k2".into(), "k1".into()]), Push::Nulls(1)]);
    println!("{}", column_signature(&c));
    println!("{:?}", decode_column(&c));
    let c2 = build_column("x", vec![Push::StrsPresent(vec!["".into(), "a".into()], vec![false, true])]);
    println!("{}", column_signature(&c2));
    println!("{:?}", decode_column(&c2));
}
