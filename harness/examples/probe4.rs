use lvh::db; use lvh::evbuf::*; use lvh::util::Outcome;
fn main() {
    lvh::util::quiet_panics();
    let db = db::open(None, &db::Cfg::default()).done().unwrap();
    let mk = |ids: Vec<i64>, iv: Vec<i64>, fv: Vec<f64>, nv: Vec<(u64,i64)>| TableData { name: "t".into(), len: ids.len() as u64, cols: vec![
        ("id".into(), ColData::I64(ids)), ("i".into(), ColData::I64(iv)), ("f".into(), ColData::Dense(fv)), ("n".into(), ColData::SparseI64(nv))] };
    let base: i64 = std::env::var("BASE").ok().and_then(|s| s.parse().ok()).unwrap_or(0);
    let _ = db::ingest(&db, event_buffer(&[mk(vec![0,1,2], vec![base+2,base+4,base+6], vec![0.0,4.0,2.0], vec![(0,4),(1,6)])]));
    let _ = db::ingest(&db, event_buffer(&[mk(vec![3,4,5], vec![base+0,base+2,base+4], vec![6.0,0.0,4.0], vec![(0,0),(1,2)])]));
    for sql in std::env::args().skip(1) {
        lvh::util::take_panics();
        match db::query(&db, &sql) { Outcome::Done(Ok(a)) => println!("{} -> {:?}", sql, a.rows), Outcome::Done(Err(e)) => println!("{} -> ERR {} {:?}", sql, &e[..e.len().min(200)], lvh::util::take_panics()), o => println!("{} -> {} {:?}", sql, o.describe(), lvh::util::take_panics()) }
    }
}
