use lvh::db; use lvh::evbuf::*; use lvh::util::Outcome; use lvh::cells::Cell;
fn main() {
    lvh::util::quiet_panics();
    let pre = std::env::var("PRE").unwrap_or_default();
    let db = db::open(None, &db::Cfg::default()).done().unwrap();
    let vals = [Some(5), Some(9), Some(3), Some(7), None, Some(5)];
    let cells: Vec<Cell> = vals.iter().map(|v| match v { Some(k) => Cell::Str(format!("{}{:02}", pre, k)), None => Cell::Null }).collect();
    let t = TableData { name: "t".into(), len: 6, cols: vec![("id".into(), ColData::I64((0..6).collect())), ("ns".into(), col_from_cells(&cells))] };
    let _ = db::ingest(&db, event_buffer(&[t]));
    for sql in std::env::args().skip(1) {
        match db::query(&db, &sql) { Outcome::Done(Ok(a)) => println!("{} -> {:?}", sql, a.rows.iter().map(|r| r.iter().map(|c| c.short()).collect::<Vec<_>>()).collect::<Vec<_>>()), o => println!("{} -> {:?}", sql, o.describe()) }
    }
}
