use lvh::db; use lvh::evbuf::*; use lvh::util::Outcome;
fn main() {
    lvh::util::quiet_panics();
    let db = db::open(None, &db::Cfg::default()).done().unwrap();
    let t = TableData { name: "t".into(), len: 6, cols: vec![
        ("id".into(), ColData::I64((0..6).collect())), ("i".into(), ColData::I64(vec![2,4,6,0,2,4])),
        ("f".into(), ColData::Dense(vec![0.0,4.0,2.0,6.0,0.0,4.0])),
        ("s".into(), ColData::Str(vec!["06".into(),"03".into(),"05".into(),"07".into(),"06".into(),"03".into()])),
        ("n".into(), ColData::SparseI64(vec![(0,4),(1,6),(3,0),(4,2)])), ("nf".into(), ColData::Sparse(vec![(0,0.0),(1,2.0),(2,4.0)]))] };
    let _ = db::ingest(&db, event_buffer(&[t]));
    for sql in std::env::args().skip(1) {
        lvh::util::take_panics();
        match db::query(&db, &sql) { Outcome::Done(Ok(a)) => println!("{} -> {:?}", sql, a.rows), Outcome::Done(Err(e)) => println!("{} -> ERR {}", sql, &e[..e.len().min(300)]), o => println!("{} -> {} {:?}", sql, o.describe(), lvh::util::take_panics()) }
    }
}
