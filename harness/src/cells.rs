//! Abstract cells and the comparison rules (DESIGN §6).
use locustdb::{BasicTypeColumn, Value};
use serde::{Deserialize, Serialize};

#[derive(Debug, Clone, Serialize, Deserialize)]
pub enum Cell {
    Null,
    Int(i64),
    Float(f64),
    Str(String),
}

impl PartialEq for Cell {
    fn eq(&self, other: &Cell) -> bool {
        match (self, other) {
            (Cell::Null, Cell::Null) => true,
            (Cell::Int(a), Cell::Int(b)) => a == b,
            (Cell::Float(a), Cell::Float(b)) => a.to_bits() == b.to_bits(),
            (Cell::Str(a), Cell::Str(b)) => a == b,
            _ => false,
        }
    }
}

impl Cell {
    pub fn from_raw(v: &Value) -> Cell {
        match v {
            Value::Int(i) => Cell::Int(*i),
            Value::Float(f) => Cell::Float(f.0),
            Value::Str(s) => Cell::Str(s.clone()),
            Value::Null => Cell::Null,
        }
    }
    pub fn is_null(&self) -> bool {
        matches!(self, Cell::Null)
    }
    pub fn short(&self) -> String {
        match self {
            Cell::Null => "NULL".into(),
            Cell::Int(i) => format!("{}", i),
            Cell::Float(f) => format!("{:?}f", f),
            Cell::Str(s) => format!("{:?}", s),
        }
    }
}

/// `returned` is an admissible reading of `supplied`: equal, or (only when the column received
/// several types) the documented degrade of it. NULL-ness is always exact.
pub fn cell_matches(supplied: &Cell, returned: &Cell, mixed_column: bool) -> bool {
    if supplied == returned {
        return true;
    }
    if !mixed_column {
        return false;
    }
    match (supplied, returned) {
        (Cell::Int(i), Cell::Float(f)) => (*i as f64).to_bits() == f.to_bits(),
        (Cell::Int(i), Cell::Str(s)) => i.to_string() == *s || format!("{}", *i as f64) == *s,
        (Cell::Float(f), Cell::Str(s)) => f.to_string() == *s,
        _ => false,
    }
}

pub fn column_to_cells(c: &BasicTypeColumn) -> Vec<Cell> {
    match c {
        BasicTypeColumn::Int(v) => v.iter().map(|i| Cell::Int(*i)).collect(),
        BasicTypeColumn::Float(v) => v.iter().map(|f| Cell::Float(*f)).collect(),
        BasicTypeColumn::String(v) => v.iter().map(|s| Cell::Str(s.clone())).collect(),
        BasicTypeColumn::Null(n) => vec![Cell::Null; *n],
        BasicTypeColumn::Mixed(v) => v.iter().map(Cell::from_raw).collect(),
    }
}
