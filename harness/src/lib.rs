pub mod cells;
pub mod crash;
pub mod db;
pub mod evbuf;
pub mod hist;
pub mod sched;
pub mod stress;
pub mod util;
