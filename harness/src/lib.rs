pub mod cells;
pub mod db;
pub mod evbuf;
pub mod hist;
pub mod util;
