//! B3 (schedules): deterministic placement of a query (and of a second ingestion) at every named
//! step boundary of a flush + compaction, of an ingestion, and inside a query snapshot.
//! The flush / ingest / query thread is parked at a sync point (hook `verif::sync`), the other
//! operation is run to completion (or to a deadline) exactly there, then the parked thread is released.
use std::collections::HashMap;
use std::sync::Arc;
use std::thread;
use std::time::Duration;

use locustdb::LocustDB;
use serde_json::{json, Value};

use crate::cells::Cell;
use crate::db::{self, Cfg};
use crate::evbuf::{event_buffer, ColData, TableData};
use crate::util::{with_deadline, Outcome};

fn req(seq: usize, n: usize, extra: Option<&str>) -> Vec<TableData> {
    let mut cols = vec![
        ("client".to_string(), ColData::I64(vec![0; n])),
        ("seq".to_string(), ColData::I64(vec![seq as i64; n])),
        ("idx".to_string(), ColData::I64((0..n as i64).collect())),
    ];
    if let Some(c) = extra {
        cols.push((c.to_string(), ColData::Dense((0..n).map(|i| (seq * 10 + i) as f64).collect())));
    }
    vec![TableData { name: "ta".to_string(), len: n as u64, cols }]
}

pub const FLUSH_LABELS: [&str; 12] = [
    "flush:freeze-locked",
    "flush:frozen",
    "flush:registered-before-handles:ta",
    "flush:batched",
    "flush:parts-persisted",
    "flush:before-compact-swap:ta",
    "flush:compact-swapped:ta",
    "flush:compact-ms:ta",
    "flush:compacted",
    "flush:meta-persisted",
    "flush:orphans-deleted",
    "flush:wal-deleted",
];
pub const INGEST_LABELS: [&str; 5] = ["ingest:locked", "ingest:catalogued", "ingest:applied:ta", "ingest:wal-written", "ingest:acked-locked"];
pub const SNAPSHOT_LABELS: [&str; 4] = ["snapshot:after-frozen-lock", "snapshot:after-partitions-lock", "snapshot:all-locked", "query:snapshotted"];
pub const QUERY_KINDS: [&str; 5] = ["tokens", "late-column", "star", "unknown-column", "tokens-after-evict"];

fn sql_for(kind: &str) -> &'static str {
    match kind {
        "tokens" | "tokens-after-evict" => "SELECT seq, idx FROM ta",
        "late-column" => "SELECT seq, idx, late FROM ta",
        "star" => "SELECT * FROM ta",
        _ => "SELECT seq, idx, no_such_column FROM ta",
    }
}

/// (seq, n rows, has late column) of the requests acknowledged so far
type Acked = Vec<(usize, usize, bool)>;

/// the answer must be the rows of a prefix of `all` that contains at least `acked_before`
fn check(kind: &str, a: &db::Answer, acked_before: &Acked, all: &Acked) -> Result<(), String> {
    let si = a.colnames.iter().position(|c| c == "seq").ok_or("no seq column")?;
    let ii = a.colnames.iter().position(|c| c == "idx").ok_or("no idx column")?;
    for k in acked_before.len()..=all.len() {
        let mut want: Vec<(i64, i64)> = vec![];
        for (s, n, _) in &all[..k] {
            for i in 0..*n {
                want.push((*s as i64, i as i64));
            }
        }
        let got: Vec<(i64, i64)> = a
            .rows
            .iter()
            .map(|r| match (&r[si], &r[ii]) {
                (Cell::Int(s), Cell::Int(i)) => (*s, *i),
                _ => (-1, -1),
            })
            .collect();
        if got == want {
            // payload column: NULL exactly for the rows of requests that did not carry it
            if kind == "late-column" || kind == "star" {
                if let Some(li) = a.colnames.iter().position(|c| c == "late") {
                    let mut r = 0;
                    for (s, n, has) in &all[..k] {
                        for i in 0..*n {
                            let want = if *has { Cell::Float((s * 10 + i) as f64) } else { Cell::Null };
                            if a.rows[r][li] != want {
                                return Err(format!("row {} column late: expected {}, got {}", r, want.short(), a.rows[r][li].short()));
                            }
                            r += 1;
                        }
                    }
                } else if kind == "late-column" {
                    return Err("column late missing from the answer".into());
                }
            }
            if kind == "unknown-column" {
                let ui = a.colnames.iter().position(|c| c == "no_such_column").ok_or("no_such_column missing")?;
                if a.rows.iter().any(|r| !r[ui].is_null()) {
                    return Err("unknown column is not NULL".into());
                }
            }
            return Ok(());
        }
    }
    Err(format!(
        "answer with {} rows is not a whole-request prefix containing the {} requests acknowledged before the query started",
        a.rows.len(),
        acked_before.len()
    ))
}

pub struct Schedule {
    pub label: String,
    pub party: String, // which thread is parked: flush | ingest | query
    pub kind: String,
    pub restart: bool,
    pub second_ingest: bool,
}

fn run_query(db: &Arc<LocustDB>, kind: &str, acked_before: &Acked, all: &Acked, blocked_ok: bool) -> Result<&'static str, String> {
    if kind == "tokens-after-evict" {
        let _ = db::evict(db);
    }
    let dbc = db.clone();
    let sql = sql_for(kind).to_string();
    let out = with_deadline(Duration::from_secs(if blocked_ok { 2 } else { 10 }), move || crate::util::block_on(dbc.run_query(&sql, false, true, vec![])));
    match out {
        Outcome::Done(Ok(o)) => {
            let a = db::to_answer(&o);
            db::views_agree(&a).map_err(|e| format!("views: {}", e))?;
            check(kind, &a, acked_before, all).map(|_| "answered")
        }
        Outcome::Done(Err(e)) => Err(format!("query failed because of the concurrent activity: {:?}", e)),
        Outcome::TimedOut => {
            if blocked_ok {
                Ok("blocked")
            } else {
                Err("query did not return while the other thread was parked".into())
            }
        }
        Outcome::Panicked(m) => Err(format!("query panicked in the caller: {}", m)),
    }
}

pub fn run(s: &Schedule, cfg: &Cfg) -> Value {
    if s.label == "kf3" {
        return run_kf3(cfg);
    }
    let dir = tempfile::tempdir().expect("tempdir");
    crate::util::take_panics();
    let mut violations: Vec<Value> = vec![];
    let mut note = String::new();
    let fail = |v: &mut Vec<Value>, oracle: &str, what: String| {
        v.push(json!({"prop": "C10", "oracle": oracle, "what": what}));
    };
    let mut db = match db::open(Some(dir.path()), cfg) {
        Outcome::Done(d) => d,
        o => return json!({"violations": [{"prop": "C11", "oracle": "open", "what": o.describe()}]}),
    };
    let mut all: Acked = vec![];
    // one persisted partition, then a second request in the buffer (first one to carry column `late`)
    let _ = db::ingest(&db, event_buffer(&req(1, 2, None)));
    all.push((1, 2, false));
    let _ = db::flush(&db);
    let _ = db::ingest(&db, event_buffer(&req(2, 3, Some("late"))));
    all.push((2, 3, true));
    if s.restart {
        drop(db);
        db = match db::open(Some(dir.path()), cfg) {
            Outcome::Done(d) => d,
            o => return json!({"violations": [{"prop": "C08", "oracle": "reopen", "what": o.describe()}]}),
        };
    }
    let acked_before = all.clone();
    locustdb::verif::release_all();
    locustdb::verif::arm(&s.label);
    let (tx, rx) = std::sync::mpsc::channel::<String>();
    match &s.party[..] {
        "flush" => {
            let dbc = db.clone();
            let tx = tx.clone();
            thread::spawn(move || {
                let r = std::panic::catch_unwind(std::panic::AssertUnwindSafe(|| dbc.force_flush()));
                let _ = tx.send(if r.is_ok() { "done".into() } else { "panicked".into() });
            });
        }
        "ingest" => {
            let dbc = db.clone();
            let tx = tx.clone();
            thread::spawn(move || {
                let r = std::panic::catch_unwind(std::panic::AssertUnwindSafe(|| crate::util::block_on(dbc.ingest_efficient(event_buffer(&req(3, 2, Some("late")))))));
                let _ = tx.send(if r.is_ok() { "done".into() } else { "panicked".into() });
            });
            all.push((3, 2, true));
        }
        _ => {
            let dbc = db.clone();
            let tx = tx.clone();
            let kind = s.kind.clone();
            let (ab, al) = (acked_before.clone(), {
                let mut a = all.clone();
                a.push((3, 2, true));
                a
            });
            thread::spawn(move || {
                let r = run_query(&dbc, &kind, &ab, &al, false);
                let _ = tx.send(match r {
                    Ok(_) => "done".into(),
                    Err(e) => format!("ERR {}", e),
                });
            });
        }
    }
    let parked = locustdb::verif::wait_parked(&s.label, Duration::from_secs(5));
    if !parked {
        locustdb::verif::release_all();
        note = "label not reached".into();
    } else {
        match &s.party[..] {
            "flush" | "ingest" => {
                // the query placed exactly here; while the ingestion lock is held a second ingestion must wait
                match run_query(&db, &s.kind, &acked_before, &all, false) {
                    Ok(_) => {}
                    Err(e) => fail(&mut violations, "placed-query", format!("query ({}) placed at {}: {}", s.kind, s.label, e)),
                }
                if s.second_ingest && s.party == "flush" && violations.is_empty() {
                    let dbc = db.clone();
                    let out = with_deadline(Duration::from_millis(1500), move || crate::util::block_on(dbc.ingest_efficient(event_buffer(&req(3, 2, Some("late"))))));
                    let must_block = s.label == "flush:freeze-locked";
                    match (&out, must_block) {
                        (Outcome::Done(()), false) => {
                            all.push((3, 2, true));
                            if let Err(e) = run_query(&db, &s.kind, &all.clone(), &all, false) {
                                fail(&mut violations, "placed-query", format!("query after the second ingestion placed at {}: {}", s.label, e));
                            }
                        }
                        (Outcome::TimedOut, true) => {
                            all.push((3, 2, true)); // completes after the release
                            note = "second ingestion waited for the ingestion lock (as specified)".into();
                        }
                        (Outcome::Done(()), true) => fail(&mut violations, "lock", format!("an ingestion completed while the flush held the ingestion lock at {}", s.label)),
                        (o, _) => fail(&mut violations, "lock", format!("second ingestion at {}: {}", s.label, o.describe())),
                    }
                }
            }
            _ => {
                // a query is parked inside / right after its snapshot: run a whole flush + compaction now
                let dbc = db.clone();
                let locked = s.label.starts_with("snapshot:");
                let out = with_deadline(Duration::from_millis(if locked { 1500 } else { 10000 }), move || dbc.force_flush());
                match (&out, locked) {
                    (Outcome::Done(()), _) => {}
                    (Outcome::TimedOut, true) => note = "flush waited for the table locks held by the snapshot (as specified)".into(),
                    (o, _) => fail(&mut violations, "op-completes", format!("force_flush while a query is parked at {}: {}", s.label, o.describe())),
                }
            }
        }
        locustdb::verif::release(&s.label);
    }
    // the parked operation must finish once released
    match rx.recv_timeout(Duration::from_secs(10)) {
        Ok(m) if m == "done" => {}
        Ok(m) => fail(&mut violations, "parked-op", format!("{} parked at {} ended with: {}", s.party, s.label, m)),
        Err(_) => {
            let p = crate::util::take_panics();
            fail(&mut violations, "parked-op", format!("{} parked at {} never finished after the release | panics: {:?}", s.party, s.label, &p[..p.len().min(2)]));
        }
    }
    locustdb::verif::release_all();
    // afterwards everything is served: flush once more, query, ingest
    if violations.is_empty() {
        thread::sleep(Duration::from_millis(20));
        if s.party == "query" {
            // the request table of the parked query is complete only now
        }
        match db::flush(&db) {
            Outcome::Done(()) => {}
            o => fail(&mut violations, "op-completes", format!("force_flush after the schedule: {}", o.describe())),
        }
        let allc = all.clone();
        if let Err(e) = run_query(&db, "late-column", &allc, &allc, false) {
            fail(&mut violations, "final-content", format!("after the schedule: {}", e));
        }
    }
    let panics = crate::util::take_panics();
    if !violations.is_empty() {
        std::mem::forget(db);
    }
    json!({"label": s.label, "party": s.party, "kind": s.kind, "restart": s.restart, "second_ingest": s.second_ingest,
           "reached": parked, "note": note, "violations": violations, "panics": panics})
}

/// Known finding KF3, reproduced deterministically: a query holds a snapshot of a persisted partition;
/// a compaction loads that partition, an eviction drops the column again before the swap, the compaction
/// retires the partition and deletes its files; the query then has nothing to read the column from.
pub fn run_kf3(cfg: &Cfg) -> Value {
    let dir = tempfile::tempdir().expect("tempdir");
    crate::util::take_panics();
    let db = match db::open(Some(dir.path()), cfg) {
        Outcome::Done(d) => d,
        o => return json!({"violations": [{"prop": "C11", "oracle": "open", "what": o.describe()}]}),
    };
    let _ = db::ingest(&db, event_buffer(&req(1, 2, None)));
    let _ = db::flush(&db);
    let _ = db::ingest(&db, event_buffer(&req(2, 3, Some("late"))));
    let all: Acked = vec![(1, 2, false), (2, 3, true)];
    locustdb::verif::release_all();
    locustdb::verif::arm("query:snapshotted");
    let (qtx, qrx) = std::sync::mpsc::channel::<Result<&'static str, String>>();
    {
        let (dbc, al) = (db.clone(), all.clone());
        thread::spawn(move || {
            let _ = qtx.send(run_query(&dbc, "tokens", &al, &al, false));
        });
    }
    let mut note = String::new();
    let mut violations: Vec<Value> = vec![];
    if !locustdb::verif::wait_parked("query:snapshotted", Duration::from_secs(5)) {
        note = "query label not reached".into();
    }
    locustdb::verif::arm("flush:before-compact-swap:ta");
    let (ftx, frx) = std::sync::mpsc::channel::<()>();
    {
        let dbc = db.clone();
        thread::spawn(move || {
            dbc.force_flush();
            let _ = ftx.send(());
        });
    }
    if !locustdb::verif::wait_parked("flush:before-compact-swap:ta", Duration::from_secs(5)) {
        note = "flush label not reached".into();
    }
    let _ = db::evict(&db);
    locustdb::verif::release("flush:before-compact-swap:ta");
    let _ = frx.recv_timeout(Duration::from_secs(10));
    locustdb::verif::release("query:snapshotted");
    match qrx.recv_timeout(Duration::from_secs(12)) {
        Ok(Ok(_)) => {}
        Ok(Err(e)) => violations.push(json!({"prop": "C10", "oracle": "kf3", "what": e})),
        Err(_) => violations.push(json!({"prop": "C10", "oracle": "kf3", "what": "query never returned"})),
    }
    locustdb::verif::release_all();
    let panics = crate::util::take_panics();
    if !violations.is_empty() {
        std::mem::forget(db);
    }
    json!({"label": "kf3", "party": "two", "kind": "tokens", "restart": false, "second_ingest": false, "reached": note.is_empty(),
           "note": note, "violations": violations, "panics": panics})
}

pub fn all_schedules() -> Vec<Schedule> {
    let mut v = vec![];
    for restart in [false, true] {
        for label in FLUSH_LABELS {
            for kind in QUERY_KINDS {
                for second in [false, true] {
                    v.push(Schedule { label: label.to_string(), party: "flush".into(), kind: kind.to_string(), restart, second_ingest: second });
                }
            }
        }
        for label in INGEST_LABELS {
            for kind in QUERY_KINDS {
                v.push(Schedule { label: label.to_string(), party: "ingest".into(), kind: kind.to_string(), restart, second_ingest: false });
            }
        }
        for label in SNAPSHOT_LABELS {
            for kind in QUERY_KINDS {
                v.push(Schedule { label: label.to_string(), party: "query".into(), kind: kind.to_string(), restart, second_ingest: false });
            }
        }
    }
    v.push(Schedule { label: "kf3".into(), party: "two".into(), kind: "tokens".into(), restart: false, second_ingest: false });
    v
}

pub fn _unused(_: HashMap<String, String>) {}
