//! Driving the real database: open, ingest, query, projection of results to cells.
use std::path::Path;
use std::sync::Arc;

use locustdb::{LocustDB, Options, QueryError, QueryOutput};
use locustdb_serialization::event_buffer::EventBuffer;

use crate::cells::{column_to_cells, Cell};
use crate::util::{block_on, deadline, with_deadline, Outcome};

#[derive(Debug, Clone)]
pub struct Cfg {
    pub combine_factor: u64,
    pub max_partition_size_bytes: u64,
    pub mem_lz4: bool,
    pub batch_size: usize,
    pub threads: usize,
    pub io_threads: usize,
    pub wal_flush_compaction_threads: usize,
    pub max_wal_files: usize,
    pub max_wal_size_bytes: u64,
}

impl Default for Cfg {
    fn default() -> Cfg {
        Cfg {
            combine_factor: 4,
            max_partition_size_bytes: 8 * 1024 * 1024,
            mem_lz4: true,
            batch_size: 1024,
            threads: 2,
            io_threads: 1,
            wal_flush_compaction_threads: 1,
            max_wal_files: 1_000_000,
            max_wal_size_bytes: 1 << 40,
        }
    }
}

pub fn options(path: Option<&Path>, cfg: &Cfg) -> Options {
    Options {
        threads: cfg.threads,
        read_threads: 2,
        db_path: path.map(|p| p.to_path_buf()),
        mem_lz4: cfg.mem_lz4,
        max_wal_size_bytes: cfg.max_wal_size_bytes,
        max_wal_files: cfg.max_wal_files,
        max_partition_size_bytes: cfg.max_partition_size_bytes,
        partition_combine_factor: cfg.combine_factor,
        batch_size: cfg.batch_size,
        wal_flush_compaction_threads: cfg.wal_flush_compaction_threads,
        io_threads: cfg.io_threads,
        metrics_table_name: None,
        ..Options::default()
    }
}

pub fn open(path: Option<&Path>, cfg: &Cfg) -> Outcome<Arc<LocustDB>> {
    let opts = options(path, cfg);
    with_deadline(deadline(), move || Arc::new(LocustDB::new(&opts)))
}

pub fn ingest(db: &Arc<LocustDB>, ev: EventBuffer) -> Outcome<()> {
    let db = db.clone();
    with_deadline(deadline(), move || block_on(db.ingest_efficient(ev)))
}

pub fn flush(db: &Arc<LocustDB>) -> Outcome<()> {
    let db = db.clone();
    with_deadline(deadline(), move || db.force_flush())
}

pub fn evict(db: &Arc<LocustDB>) -> Outcome<usize> {
    let db = db.clone();
    with_deadline(deadline(), move || db.evict_cache())
}

#[derive(Debug, Clone)]
pub struct Answer {
    pub colnames: Vec<String>,
    /// row view
    pub rows: Vec<Vec<Cell>>,
    /// column view (name, cells)
    pub columns: Vec<(String, Vec<Cell>)>,
}

pub fn to_answer(out: &QueryOutput) -> Answer {
    Answer {
        colnames: out.colnames.clone(),
        rows: out
            .rows
            .as_ref()
            .map(|rows| rows.iter().map(|r| r.iter().map(Cell::from_raw).collect()).collect())
            .unwrap_or_default(),
        columns: out.columns.iter().map(|(n, c)| (n.clone(), column_to_cells(c))).collect(),
    }
}

pub type QResult = Result<Answer, String>;

pub fn query_raw(db: &Arc<LocustDB>, sql: &str) -> Outcome<Result<QueryOutput, QueryError>> {
    let db = db.clone();
    let sql = sql.to_string();
    with_deadline(deadline(), move || block_on(db.run_query(&sql, false, true, vec![])))
}

pub fn query(db: &Arc<LocustDB>, sql: &str) -> Outcome<QResult> {
    match query_raw(db, sql) {
        Outcome::Done(Ok(out)) => Outcome::Done(Ok(to_answer(&out))),
        Outcome::Done(Err(e)) => Outcome::Done(Err(format!("{:?}", e))),
        Outcome::Panicked(m) => Outcome::Panicked(m),
        Outcome::TimedOut => Outcome::TimedOut,
    }
}

/// Checks that row view and column view of an answer describe the same cells.
pub fn views_agree(a: &Answer) -> Result<(), String> {
    if a.columns.is_empty() && a.rows.is_empty() {
        return Ok(());
    }
    if a.columns.len() != a.colnames.len() {
        return Err(format!("{} columns for {} names", a.columns.len(), a.colnames.len()));
    }
    for (i, (name, cells)) in a.columns.iter().enumerate() {
        if name != &a.colnames[i] {
            return Err(format!("column {} is named {:?}, expected {:?}", i, name, a.colnames[i]));
        }
        if cells.len() != a.rows.len() {
            return Err(format!("column {:?} has {} cells, row view has {} rows", name, cells.len(), a.rows.len()));
        }
        for (r, c) in cells.iter().enumerate() {
            if a.rows[r].len() != a.colnames.len() {
                return Err(format!("row {} has {} cells", r, a.rows[r].len()));
            }
            if &a.rows[r][i] != c {
                return Err(format!(
                    "row view and column view differ at row {} column {:?}: {} vs {}",
                    r, name, a.rows[r][i].short(), c.short()
                ));
            }
        }
    }
    Ok(())
}
