//! C01: behaviours of ColumnBuffer.tla (sequences of batch contributions to one column) replayed through
//! the wire format and the row API, under several layouts; SELECT must return every supplied cell.
use std::sync::Arc;

use locustdb::LocustDB;
use locustdb_serialization::api::AnyVal;
use locustdb_serialization::event_buffer::{EventBuffer, TableBuffer};
use serde::Deserialize;
use serde_json::{json, Value};

use crate::cells::Cell;
use crate::db::{self, Cfg};
use crate::evbuf::{event_buffer, ColData, TableData};
use crate::util::Outcome;

#[derive(Debug, Clone, Deserialize)]
pub struct Batch {
    pub n: usize,
    pub kind: String,
}
#[derive(Debug, Clone, Deserialize)]
pub struct ACell {
    pub t: String,
    pub b: usize,
    pub p: usize,
    pub ok: Vec<String>,
}
#[derive(Debug, Clone, Deserialize)]
pub struct Behaviour {
    pub batches: Vec<Batch>,
    pub kind: String,
    pub cells: Vec<ACell>,
}

pub const REPS: [usize; 8] = [1, 7, 8, 9, 63, 64, 65, 300];
pub const NUM_CLASSES: usize = 9;

fn int_val(class: usize, k: i64) -> i64 {
    match class % NUM_CLASSES {
        0 => k % 200,                          // u8
        1 => 250 + (k % 12),                   // crosses 255 / 256
        2 => 65_530 + (k % 12),                // crosses 65 535 / 65 536
        3 => (1i64 << 32) - 6 + (k % 12),      // crosses 2^32
        4 => -(1i64 << 62) + k * 1_000_003,    // wide i64, negative
        5 => 1_000_000 + k * 3,                // strictly increasing: delta coding
        6 => if k % 2 == 0 { i64::MIN + k } else { i64::MAX - 1 - k }, // extremes (i64::MAX itself is the NULL marker)
        _ => -300 + (k % 500),                 // negative offset
    }
}

fn float_val(class: usize, k: i64) -> f64 {
    match class % NUM_CLASSES {
        0 => k as f64 * 0.5,                   // exact in f32
        1 => k as f64 + 0.1,                   // not exact in f32
        2 => if k % 3 == 0 { -0.0 } else { k as f64 },
        3 => f64::from_bits(1 + k as u64),     // subnormal
        4 => if k % 5 == 0 { f64::INFINITY } else if k % 5 == 1 { f64::NEG_INFINITY } else { k as f64 * 1e300 },
        5 => 1e-9 * k as f64,
        6 => (k as f64).sqrt(),
        _ => -(k as f64) * 1234.56789,
    }
}

fn str_val(class: usize, k: i64) -> String {
    match class % NUM_CLASSES {
        0 => format!("k{}", k % 3),                               // low cardinality
        1 => format!("u{}", k),                                   // all distinct
        2 => if k % 4 == 0 { String::new() } else { format!("e{}", k) }, // empty strings
        3 => format!("{}{}", "y".repeat(250 + (k as usize % 8)), k % 2),  // 250..257 bytes
        4 => format!("ünï-{}-日本", k % 5),                        // non-ASCII
        5 => format!("{:08x}", (k as u64).wrapping_mul(2654435761) & 0xffff_ffff), // lower hex, even length
        6 => format!("{:07X}", (k as u64).wrapping_mul(40503) & 0xfff_ffff),      // upper hex, odd length
        8 => format!("{:010X}", (k as u64).wrapping_mul(2654435761) & 0xff_ffff_ffff), // upper hex, even length (hex-packed, upper-case flag)
        _ => format!("{}", k),                                    // digit strings (look like numbers)
    }
}

/// concrete cell for abstract cell (type t, batch b, position p) repeated `rep` times: index r
pub fn gamma(class: usize, t: &str, b: usize, p: usize, r: usize) -> Cell {
    let k = (b * 1000 + r * 4 + p) as i64;
    match t {
        "i" => Cell::Int(int_val(class, k)),
        "f" => Cell::Float(float_val(class, k)),
        "s" => Cell::Str(str_val(class, k)),
        _ => Cell::Null,
    }
}

/// admissible read-back of `supplied` given the admissible types
pub fn matches(supplied: &Cell, ok: &[String], got: &Cell) -> bool {
    for t in ok {
        let good = match (&t[..], supplied, got) {
            ("null", Cell::Null, Cell::Null) => true,
            ("i", Cell::Int(a), Cell::Int(b)) => a == b,
            ("f", Cell::Float(a), Cell::Float(b)) => a.to_bits() == b.to_bits(),
            ("f", Cell::Int(a), Cell::Float(b)) => (*a as f64).to_bits() == b.to_bits(),
            ("s", Cell::Str(a), Cell::Str(b)) => a == b,
            ("s", Cell::Int(a), Cell::Str(b)) => &a.to_string() == b || &(*a as f64).to_string() == b,
            ("s", Cell::Float(a), Cell::Str(b)) => &a.to_string() == b,
            _ => false,
        };
        if good {
            return true;
        }
    }
    false
}

pub struct Built {
    pub db: Arc<LocustDB>,
    pub expected: Vec<(Cell, Vec<String>)>,
    _dir: Option<tempfile::TempDir>,
}

fn wire_col(kind: &str, cells: &[Cell]) -> Option<ColData> {
    Some(match kind {
        "absent" => return None,
        "nulls" => ColData::Empty,
        "ints" => ColData::I64(cells.iter().map(|c| if let Cell::Int(i) = c { *i } else { 0 }).collect()),
        "floats" => ColData::Dense(cells.iter().map(|c| if let Cell::Float(f) = c { *f } else { 0.0 }).collect()),
        "strs" => ColData::Str(cells.iter().map(|c| if let Cell::Str(s) = c { s.clone() } else { String::new() }).collect()),
        "sparse_i" => ColData::SparseI64(cells.iter().enumerate().filter_map(|(i, c)| if let Cell::Int(v) = c { Some((i as u64, *v)) } else { None }).collect()),
        "sparse_f" => ColData::Sparse(cells.iter().enumerate().filter_map(|(i, c)| if let Cell::Float(v) = c { Some((i as u64, *v)) } else { None }).collect()),
        _ => ColData::Mixed(cells.to_vec()),
    })
}

fn row_api_buffer(id0: i64, cells: &[Cell], with_x: bool) -> EventBuffer {
    let mut tb = TableBuffer::default();
    for (i, c) in cells.iter().enumerate() {
        let mut row: Vec<(String, AnyVal)> = vec![("id".to_string(), AnyVal::Int(id0 + i as i64)), ("timestamp".to_string(), AnyVal::Float(1.5))];
        if with_x {
            row.push((
                "x".to_string(),
                match c {
                    Cell::Int(v) => AnyVal::Int(*v),
                    Cell::Float(v) => AnyVal::Float(*v),
                    Cell::Str(s) => AnyVal::Str(s.clone()),
                    Cell::Null => AnyVal::Null,
                },
            ));
        }
        tb.push_row_and_timestamp(row);
    }
    let mut ev = EventBuffer::default();
    ev.tables.insert("t".to_string(), tb);
    ev
}

/// path: "wire" | "rows"; layout: 0 buffer only (memory), 1 flush after every batch, 2 = 1 + restart, 3 = disk, no flush, restart (WAL replay)
pub fn run(b: &Behaviour, class: usize, rep: usize, path: &str, layout: usize) -> Value {
    crate::util::take_panics();
    let dir = if layout > 0 { Some(tempfile::tempdir().expect("tempdir")) } else { None };
    let cfg = Cfg { combine_factor: 999, ..Cfg::default() };
    let mut db = match db::open(dir.as_ref().map(|d| d.path()), &cfg) {
        Outcome::Done(d) => d,
        o => return json!({"violations": [{"prop": "C11", "oracle": "open", "what": o.describe()}]}),
    };
    let mut expected: Vec<(Cell, Vec<String>)> = vec![];
    let mut vio: Vec<Value> = vec![];
    let mut id0 = 0i64;
    let mut ci = 0usize;
    let mut skipped = false;
    for (bi, batch) in b.batches.iter().enumerate() {
        // the abstract cells of this batch, repeated `rep` times
        let abs: Vec<&ACell> = b.cells[ci..ci + batch.n].iter().collect();
        ci += batch.n;
        let mut cells: Vec<Cell> = vec![];
        let mut oks: Vec<Vec<String>> = vec![];
        for r in 0..rep {
            for a in &abs {
                cells.push(gamma(class, &a.t, bi + 1, a.p, r));
                oks.push(a.ok.clone());
            }
        }
        let n = cells.len();
        let ev = if path == "wire" {
            let mut cols = vec![("id".to_string(), ColData::I64((id0..id0 + n as i64).collect()))];
            if let Some(c) = wire_col(&batch.kind, &cells) {
                cols.push(("x".to_string(), c));
            }
            event_buffer(&[TableData { name: "t".into(), len: n as u64, cols }])
        } else {
            // the row API refuses a string in a numeric column (and vice versa) and sparse strings: outside the domain
            let types: std::collections::BTreeSet<&str> = abs.iter().map(|a| &a.t[..]).filter(|t| *t != "null").collect();
            if types.contains("s") && (types.len() > 1 || abs.iter().any(|a| a.t == "null")) {
                skipped = true;
                break;
            }
            row_api_buffer(id0, &cells, batch.kind != "absent")
        };
        match db::ingest(&db, ev) {
            Outcome::Done(()) => {}
            o => {
                vio.push(json!({"prop": "C01", "oracle": "ingest", "what": format!("batch {} ({}): {}", bi, batch.kind, o.describe())}));
                break;
            }
        }
        for (c, ok) in cells.into_iter().zip(oks) {
            expected.push((c, ok));
        }
        id0 += n as i64;
        if layout == 1 || layout == 2 {
            if !matches!(db::flush(&db), Outcome::Done(())) {
                vio.push(json!({"prop": "C07", "oracle": "flush", "what": "force_flush failed"}));
                break;
            }
        }
    }
    if skipped {
        return json!({"skipped": true, "violations": []});
    }
    if vio.is_empty() && layout >= 2 {
        drop(db);
        db = match db::open(dir.as_ref().map(|d| d.path()), &cfg) {
            Outcome::Done(d) => d,
            o => return json!({"violations": [{"prop": "C08", "oracle": "reopen", "what": o.describe()}]}),
        };
    }
    let mut cells_checked = 0;
    if vio.is_empty() {
        for sql in ["SELECT id, x FROM t", "SELECT x FROM t", "SELECT * FROM t"] {
            match db::query(&db, sql) {
                Outcome::Done(Ok(a)) => {
                    if let Err(e) = db::views_agree(&a) {
                        vio.push(json!({"prop": "C12", "oracle": "views", "sql": sql, "what": e}));
                        break;
                    }
                    let xi = match a.colnames.iter().position(|c| c == "x") {
                        Some(i) => i,
                        None => {
                            // a column that only ever received NULLs does not exist for SELECT *
                            if sql == "SELECT * FROM t" && expected.iter().all(|(c, _)| c.is_null()) {
                                continue;
                            }
                            vio.push(json!({"prop": "C01", "oracle": "column", "sql": sql, "what": format!("no column x in the answer: {:?}", a.colnames)}));
                            break;
                        }
                    };
                    if a.rows.len() != expected.len() {
                        vio.push(json!({"prop": "C01", "oracle": "rows", "sql": sql, "what": format!("{} rows returned, {} supplied", a.rows.len(), expected.len())}));
                        break;
                    }
                    for (i, (sup, ok)) in expected.iter().enumerate() {
                        cells_checked += 1;
                        if !matches(sup, ok, &a.rows[i][xi]) {
                            vio.push(json!({"prop": "C01", "oracle": "cell", "sql": sql, "what": format!("row {}: supplied {}, returned {} (admissible types {:?})", i, sup.short(), a.rows[i][xi].short(), ok)}));
                            break;
                        }
                        if let Some(ii) = a.colnames.iter().position(|c| c == "id") {
                            if a.rows[i][ii] != Cell::Int(i as i64) {
                                vio.push(json!({"prop": "C01", "oracle": "order", "sql": sql, "what": format!("row {} has id {}", i, a.rows[i][ii].short())}));
                                break;
                            }
                        }
                    }
                }
                Outcome::Done(Err(e)) => {
                    vio.push(json!({"prop": "C01", "oracle": "error", "sql": sql, "what": e}));
                }
                o => {
                    vio.push(json!({"prop": "C11", "oracle": "completes", "sql": sql, "what": o.describe()}));
                    break;
                }
            }
            if !vio.is_empty() {
                break;
            }
        }
    }
    if !vio.is_empty() {
        std::mem::forget(db);
    }
    json!({"class": class, "rep": rep, "path": path, "layout": layout, "cells": cells_checked, "violations": vio, "panics": crate::util::take_panics()})
}
