//! C16: client/server encodings.
//!  - `wire_case`: a history of WireBuffer.tla (one column, one cell kind per row) is replayed on the real row
//!    API (`TableBuffer::push_row_and_timestamp`), serialised, deserialised, compared with the variant and the
//!    logical cells the specification predicts, re-built through the wire schema in every representation that
//!    can carry the same cells, and ingested + read back through the embedded database.
//!  - `ints_case`: a scaled difference vector of DeltaLayout.tla concretised at the real type bounds, sent
//!    through `QueryResponse::serialize` / `deserialize`.
//!  - `floats_case`: a sequence of float classes through `xor_float::double::encode` / `decode` with every
//!    requested mantissa setting.
use std::collections::BTreeMap;
use std::panic::{catch_unwind, AssertUnwindSafe};
use std::sync::Arc;

use locustdb::LocustDB;
use locustdb_compression_utils::xor_float;
use locustdb_serialization::api::{AnyVal, Column, EncodingOpts, MultiQueryResponse, QueryResponse};
use locustdb_serialization::api_capnp;
use locustdb_serialization::event_buffer::{ColumnData, EventBuffer, TableBuffer};
use serde::Deserialize;
use serde_json::{json, Value};

use crate::cells::Cell;
use crate::db;
use crate::evbuf::{self, ColData, TableData};
use crate::util::{panic_message, Outcome};

#[derive(Debug, Clone, Deserialize)]
pub struct WireCase {
    pub hist: Vec<String>,
    pub unsupported: bool,
    pub variant: String,
    pub cells: Vec<String>,
}

const INTS: [i64; 6] = [0, -1, (1 << 53) + 1, i64::MIN + 1, i64::MAX - 1, 42];
const FLOATS: [f64; 6] = [1.5, -0.0, 1e300, 5e-324, -2.5, 0.1];
const STRS: [&str; 6] = ["", "a", "ünï", "x y", "0123456789012345678901234567890123456789", "NULL"];

fn vio(oracle: &str, what: String) -> Value {
    json!({"oracle": oracle, "what": what})
}

fn variant_name(d: &ColumnData) -> &'static str {
    match d {
        ColumnData::Empty => "Empty",
        ColumnData::Dense(_) => "Dense",
        ColumnData::Sparse(_) => "Sparse",
        ColumnData::I64(_) => "I64",
        ColumnData::SparseI64(_) => "SparseI64",
        ColumnData::String(_) => "String",
        ColumnData::Mixed(_) => "Mixed",
    }
}

/// The logical column a server must read out of a column representation and the table's row count.
pub fn logical(d: &ColumnData, len: usize) -> Result<Vec<Cell>, String> {
    let mut out = vec![Cell::Null; len];
    let mut put = |i: usize, c: Cell| -> Result<(), String> {
        if i >= len {
            return Err(format!("entry at row {} of a table with {} rows", i, len));
        }
        out[i] = c;
        Ok(())
    };
    match d {
        ColumnData::Empty => {}
        ColumnData::Dense(v) => {
            for (i, x) in v.iter().enumerate() {
                put(i, Cell::Float(*x))?;
            }
        }
        ColumnData::Sparse(v) => {
            for (i, x) in v {
                put(*i as usize, Cell::Float(*x))?;
            }
        }
        ColumnData::I64(v) => {
            for (i, x) in v.iter().enumerate() {
                put(i, Cell::Int(*x))?;
            }
        }
        ColumnData::SparseI64(v) => {
            for (i, x) in v {
                put(*i as usize, Cell::Int(*x))?;
            }
        }
        ColumnData::String(v) => {
            for (i, x) in v.iter().enumerate() {
                put(i, Cell::Str(x.clone()))?;
            }
        }
        ColumnData::Mixed(v) => {
            for (i, x) in v.iter().enumerate() {
                put(
                    i,
                    match x {
                        AnyVal::Int(i) => Cell::Int(*i),
                        AnyVal::Float(f) => Cell::Float(*f),
                        AnyVal::Str(s) => Cell::Str(s.clone()),
                        AnyVal::Null => Cell::Null,
                    },
                )?;
            }
        }
    }
    Ok(out)
}

fn same_data(a: &ColumnData, b: &ColumnData, len: usize) -> bool {
    variant_name(a) == variant_name(b) && a.len() == b.len() && logical(a, len.max(a.len() + 64)).ok() == logical(b, len.max(a.len() + 64)).ok()
}

/// expected concrete cells: the value pushed at row i, as the kind the specification says the column holds it
fn expected_cells(c: &WireCase) -> Vec<Cell> {
    c.cells
        .iter()
        .enumerate()
        .map(|(i, k)| match (k.as_str(), c.hist[i].as_str()) {
            ("null", _) => Cell::Null,
            ("int", _) => Cell::Int(INTS[i % 6]),
            ("float", "int") => Cell::Float(INTS[i % 6] as f64),
            ("float", _) => Cell::Float(FLOATS[i % 6]),
            ("str", _) => Cell::Str(STRS[i % 6].to_string()),
            _ => unreachable!(),
        })
        .collect()
}

fn round_trip(eb: &EventBuffer) -> Result<EventBuffer, String> {
    match catch_unwind(AssertUnwindSafe(|| EventBuffer::deserialize(&eb.serialize()))) {
        Ok(Ok(e)) => Ok(e),
        Ok(Err(e)) => Err(format!("deserialize error: {:?}", e)),
        Err(p) => Err(format!("panic: {}", panic_message(p))),
    }
}

fn table_cols(tb: &TableBuffer) -> BTreeMap<String, ColumnData> {
    tb.columns().map(|(n, c)| (n.clone(), c.data.clone())).collect()
}

pub fn wire_case(c: &WireCase, idx: usize, dbh: Option<&Arc<LocustDB>>) -> Vec<Value> {
    let mut out = vec![];
    let rows = c.hist.len();
    // ---- the row API
    let mut tb = TableBuffer::default();
    let mut refused = None;
    for (i, k) in c.hist.iter().enumerate() {
        let mut row: Vec<(String, AnyVal)> = vec![("k".to_string(), AnyVal::Int(i as i64)), ("timestamp".to_string(), AnyVal::Float(i as f64))];
        match k.as_str() {
            "int" => row.push(("c".to_string(), AnyVal::Int(INTS[i % 6]))),
            "float" => row.push(("c".to_string(), AnyVal::Float(FLOATS[i % 6]))),
            "str" => row.push(("c".to_string(), AnyVal::Str(STRS[i % 6].to_string()))),
            "null" => row.push(("c".to_string(), AnyVal::Null)),
            _ => {}
        }
        if let Err(p) = catch_unwind(AssertUnwindSafe(|| tb.push_row_and_timestamp(row))) {
            refused = Some((i, panic_message(p)));
            break;
        }
    }
    crate::util::take_panics();
    match (&refused, c.unsupported) {
        (Some(_), true) => return out,
        (Some((i, m)), false) => {
            out.push(vio("row-api-refuses", format!("history {:?}: the row API panics at row {} ({}), the specification accepts it", c.hist, i, m)));
            return out;
        }
        (None, true) => {
            out.push(vio("row-api-accepts", format!("history {:?}: the specification refuses it, the row API accepts it", c.hist)));
            return out;
        }
        (None, false) => {}
    }
    let expected = expected_cells(c);
    let mentioned = c.hist.iter().any(|k| k != "absent");
    let mut eb = EventBuffer::default();
    let tname = format!("w{}", idx);
    eb.tables.insert(tname.clone(), tb.clone());
    // ---- serialise / deserialise
    let eb2 = match round_trip(&eb) {
        Ok(e) => e,
        Err(e) => {
            out.push(vio("message-codec", format!("history {:?}: {}", c.hist, e)));
            return out;
        }
    };
    if eb2.tables.keys().collect::<Vec<_>>() != vec![&tname] {
        out.push(vio("message-codec", format!("tables {:?} decoded from a message with table {:?}", eb2.tables.keys().collect::<Vec<_>>(), tname)));
        return out;
    }
    let tb2 = &eb2.tables[&tname];
    if tb2.len() != rows {
        out.push(vio("message-codec", format!("history {:?}: {} rows decoded, {} pushed", c.hist, tb2.len(), rows)));
    }
    let (c1, c2) = (table_cols(&tb), table_cols(tb2));
    if c1.keys().collect::<Vec<_>>() != c2.keys().collect::<Vec<_>>() {
        out.push(vio("message-codec", format!("columns {:?} decoded, {:?} sent", c2.keys().collect::<Vec<_>>(), c1.keys().collect::<Vec<_>>())));
        return out;
    }
    for (n, d) in &c1 {
        if !same_data(d, &c2[n], rows) {
            out.push(vio("message-codec", format!("history {:?}: column {:?} sent as {:?}, decoded as {:?}", c.hist, n, d, c2[n])));
        }
    }
    if mentioned != c2.contains_key("c") {
        out.push(vio("row-api-state", format!("history {:?}: column c present = {}", c.hist, c2.contains_key("c"))));
    }
    if let Some(d) = c2.get("c") {
        if variant_name(d) != c.variant {
            out.push(vio("row-api-state", format!("history {:?}: representation {} where the specification has {}", c.hist, variant_name(d), c.variant)));
        }
        match logical(d, rows) {
            Ok(cells) if cells == expected => {}
            Ok(cells) => out.push(vio(
                "logical-column",
                format!("history {:?}: decoded cells {:?}, expected {:?}", c.hist, cells.iter().map(Cell::short).collect::<Vec<_>>(), expected.iter().map(Cell::short).collect::<Vec<_>>()),
            )),
            Err(e) => out.push(vio("logical-column", format!("history {:?}: {}", c.hist, e))),
        }
    }
    // ---- the same cells in every representation of the wire schema that can carry them
    let mut reprs: Vec<ColData> = vec![ColData::Mixed(expected.clone()), evbuf::col_from_cells(&expected)];
    let nn = expected.iter().filter(|c| !c.is_null()).count();
    if nn > 0 && expected[..nn].iter().all(|c| !c.is_null()) {
        // a dense column shorter than the table
        if expected[..nn].iter().all(|c| matches!(c, Cell::Float(_))) {
            reprs.push(ColData::Dense(expected[..nn].iter().map(|c| if let Cell::Float(f) = c { *f } else { 0.0 }).collect()));
        }
        if expected[..nn].iter().all(|c| matches!(c, Cell::Int(_))) {
            reprs.push(ColData::I64(expected[..nn].iter().map(|c| if let Cell::Int(i) = c { *i } else { 0 }).collect()));
        }
    }
    for (ri, r) in reprs.iter().enumerate() {
        let td = TableData { name: tname.clone(), len: rows as u64, cols: vec![("c".to_string(), r.clone())] };
        let bytes = evbuf::serialize(&[td]);
        match catch_unwind(AssertUnwindSafe(|| EventBuffer::deserialize(&bytes))) {
            Ok(Ok(e)) => {
                let t = &e.tables[&tname];
                let got = t.columns().find(|(n, _)| *n == "c").map(|(_, c)| logical(&c.data, t.len()));
                if t.len() != rows || got != Some(Ok(expected.clone())) {
                    out.push(vio("wire-schema", format!("representation {} ({:?}) of {:?} decodes to {:?} with {} rows", ri, r, c.cells, got, t.len())));
                }
                // and serialising what was decoded gives the same message content again
                match round_trip(&e) {
                    Ok(e2) => {
                        let t2 = &e2.tables[&tname];
                        if t2.len() != rows || !same_data(&table_cols(t)["c"], &table_cols(t2)["c"], rows) {
                            out.push(vio("wire-schema", format!("representation {:?} changes when re-serialised", r)));
                        }
                    }
                    Err(m) => out.push(vio("wire-schema", format!("representation {:?}: {}", r, m))),
                }
            }
            Ok(Err(e)) => out.push(vio("wire-schema", format!("representation {:?}: {:?}", r, e))),
            Err(p) => out.push(vio("wire-schema", format!("representation {:?}: panic {}", r, panic_message(p)))),
        }
    }
    crate::util::take_panics();
    // ---- what the server does with the decoded message: ingest and read back
    if let Some(dbh) = dbh {
        match db::ingest(dbh, eb2) {
            Outcome::Done(()) => {}
            o => {
                out.push(json!({"oracle": "server-ingest", "what": format!("history {:?} ({}): ingesting the decoded message: {}", c.hist, c.variant, o.describe()), "fatal": true}));
                return out;
            }
        }
        let sql = if mentioned { format!("SELECT k, c FROM {}", tname) } else { format!("SELECT k FROM {}", tname) };
        match db::query(dbh, &sql) {
            Outcome::Done(Ok(a)) => {
                let mut got: Vec<(i64, Cell)> = a
                    .rows
                    .iter()
                    .map(|r| (if let Cell::Int(k) = r[0] { k } else { -1 }, if mentioned { r[1].clone() } else { Cell::Null }))
                    .collect();
                got.sort_by_key(|x| x.0);
                let exp: Vec<(i64, Cell)> = (0..rows).map(|i| (i as i64, if mentioned { expected[i].clone() } else { Cell::Null })).collect();
                if got != exp {
                    out.push(vio(
                        "server-values",
                        format!("history {:?} ({}): {} returns {:?}, expected {:?}", c.hist, c.variant, sql, got.iter().map(|x| x.1.short()).collect::<Vec<_>>(), exp.iter().map(|x| x.1.short()).collect::<Vec<_>>()),
                    ));
                }
            }
            Outcome::Done(Err(e)) => out.push(vio("server-values", format!("history {:?}: {} fails: {}", c.hist, sql, e))),
            o => out.push(json!({"oracle": "server-values", "what": format!("history {:?}: {}: {}", c.hist, sql, o.describe()), "fatal": true})),
        }
    }
    out
}

// ------------------------------------------------------------------------------------------------ integers

/// scaled value of DeltaLayout.tla at (W1, W2, W3) = (1, 3, 7) -> the corresponding value at (i8, i16, i32):
/// strictly monotone, and every scaled type bound goes to the real type bound
pub fn unscale(s: i64) -> i128 {
    match s {
        0 => 0,
        1 => 127,
        2 => 128,
        3 => 32767,
        4 => 32768,
        5 => 1 << 24,
        6 => (1 << 31) - 2,
        7 => (1 << 31) - 1,
        8 => 1 << 31,
        9 => 1 << 40,
        -1 => -1,
        -2 => -128,
        -3 => -129,
        -4 => -32768,
        -5 => -32769,
        -6 => -(1 << 24),
        -7 => -(1 << 31) + 1,
        -8 => -(1 << 31),
        -9 => -(1 << 31) - 1,
        _ => panic!("scaled value out of range"),
    }
}

/// DeltaLayout!Layout at the real widths, in i128
pub fn layout(xs: &[i64]) -> &'static str {
    if xs.len() < 2 {
        return "raw";
    }
    let d: Vec<i128> = xs.windows(2).map(|w| w[1] as i128 - w[0] as i128).collect();
    let dd: Vec<i128> = d.windows(2).map(|w| w[1] - w[0]).collect();
    let fits = |v: &[i128], w: i128| v.iter().all(|x| -w - 1 <= *x && *x <= w);
    let dd = if fits(&d, i64::MAX as i128) { dd } else { vec![] };
    if d.iter().all(|x| *x == d[0]) && d[0] >= i64::MIN as i128 && d[0] <= i64::MAX as i128 {
        "range"
    } else if fits(&d, 127) {
        "d1"
    } else if !dd.is_empty() && fits(&dd, 127) {
        "dd1"
    } else if fits(&d, 32767) {
        "d2"
    } else if !dd.is_empty() && fits(&dd, 32767) {
        "dd2"
    } else if fits(&d, (1 << 31) - 1) {
        "d3"
    } else if !dd.is_empty() && fits(&dd, (1 << 31) - 1) {
        "dd3"
    } else {
        "raw"
    }
}

fn impl_layout(bytes: &[u8]) -> Option<&'static str> {
    use api_capnp::column::data::Which;
    let r = capnp::serialize_packed::read_message(bytes, locustdb_serialization::default_reader_options()).ok()?;
    let q = r.get_root::<api_capnp::query_response::Reader>().ok()?;
    let col = q.get_columns().ok()?.get(0);
    Some(match col.get_data().which().ok()? {
        Which::I64(_) => "raw",
        Which::Range(_) => "range",
        Which::DeltaEncodedI8(_) => "d1",
        Which::DeltaEncodedI16(_) => "d2",
        Which::DeltaEncodedI32(_) => "d3",
        Which::DoubleDeltaEncodedI8(_) => "dd1",
        Which::DoubleDeltaEncodedI16(_) => "dd2",
        Which::DoubleDeltaEncodedI32(_) => "dd3",
        _ => "other",
    })
}

pub struct IntStats {
    pub sequences: usize,
    pub layouts: BTreeMap<String, usize>,
    pub layout_differs: usize,
}

pub fn int_round_trip(xs: &[i64], st: &mut IntStats) -> Option<Value> {
    st.sequences += 1;
    let q = QueryResponse { columns: [("c".to_string(), Column::Int(xs.to_vec()))].into_iter().collect() };
    let r = catch_unwind(AssertUnwindSafe(|| {
        let bytes = q.serialize();
        (impl_layout(&bytes), QueryResponse::deserialize(&bytes))
    }));
    crate::util::take_panics();
    match r {
        Ok((lay, Ok(q2))) => {
            let l = lay.unwrap_or("?");
            *st.layouts.entry(l.to_string()).or_default() += 1;
            if l != layout(xs) {
                st.layout_differs += 1;
            }
            match (q2.columns.len(), q2.columns.get("c")) {
                (1, Some(Column::Int(ys))) if ys == xs => None,
                other => Some(json!({"oracle": "int-round-trip", "xs": xs, "what": format!("{:?} (layout {}) decodes to {}", xs, l, format!("{:?}", other).chars().take(300).collect::<String>())})),
            }
        }
        Ok((_, Err(e))) => Some(json!({"oracle": "int-round-trip", "xs": xs, "what": format!("{:?}: deserialize error {:?}", xs, e)})),
        Err(p) => Some(json!({"oracle": "int-round-trip", "xs": xs, "what": format!("{:?} (layout per specification {}): panic {}", xs, layout(xs), panic_message(p))})),
    }
}

/// every concrete sequence derived from one scaled vector: read as first differences and as second differences,
/// from several starting points (the ends of the i64 range included when the sequence stays inside it)
pub fn int_sequences(scaled: &[i64]) -> Vec<Vec<i64>> {
    let m: Vec<i128> = scaled.iter().map(|s| unscale(*s)).collect();
    let mut shapes: Vec<Vec<i128>> = vec![];
    // (a) as first differences
    let mut a = vec![0i128];
    for d in &m {
        a.push(a.last().unwrap() + d);
    }
    shapes.push(a);
    // (b) as second differences, first difference 0 and first difference = first element
    for d0 in [0i128, *m.first().unwrap_or(&0)] {
        let mut b = vec![0i128, d0];
        let mut d = d0;
        for dd in &m {
            d += dd;
            b.push(b.last().unwrap() + d);
        }
        shapes.push(b);
    }
    // (c) as the values themselves
    shapes.push(m.clone());
    let mut out = vec![];
    for s in shapes {
        if s.is_empty() {
            out.push(vec![]);
            continue;
        }
        let (lo, hi) = (*s.iter().min().unwrap(), *s.iter().max().unwrap());
        for start in [0i128, i64::MIN as i128 - lo, i64::MAX as i128 - hi, -lo - (1 << 62)] {
            let v: Vec<i128> = s.iter().map(|x| x + start).collect();
            if v.iter().all(|x| *x >= i64::MIN as i128 && *x <= i64::MAX as i128) {
                out.push(v.iter().map(|x| *x as i64).collect());
            }
        }
    }
    out.sort();
    out.dedup();
    out
}

/// sequences whose differences do not fit i64
pub fn int_extremes() -> Vec<Vec<i64>> {
    let (lo, hi) = (i64::MIN, i64::MAX);
    vec![
        vec![lo, hi],
        vec![hi, lo],
        vec![lo, hi, lo],
        vec![hi, lo, hi],
        vec![0, hi, lo],
        vec![lo, 0, hi],
        vec![hi, 0, lo],
        vec![lo, lo, hi, hi],
        vec![-2, hi, -2, hi],
        vec![hi - 1, lo + 1, 0],
        vec![0, hi, -1],
        vec![1, lo, 1],
        vec![lo, -1, hi],
        vec![hi, hi],
        vec![lo, lo, lo],
        vec![lo],
        vec![hi],
        vec![],
    ]
}

// ------------------------------------------------------------------------------------------------ floats

pub const FCLASSES: [u64; 12] = [
    0x0000_0000_0000_0000, // +0
    0x8000_0000_0000_0000, // -0
    0x3ff0_0000_0000_0000, // 1
    0xbff0_0000_0000_0000, // -1 (sign flip of the previous class)
    0x3ff0_0000_0000_0001, // 1 + ulp
    0x7ff8_0000_dead_beef, // NaN with payload
    0x7ff0_0000_0000_0000, // +inf
    0xfff0_0000_0000_0000, // -inf
    0x0000_0000_0000_0001, // least subnormal
    0x7fef_ffff_ffff_ffff, // f64::MAX
    0x4009_21fb_5444_2d18, // pi
    0xfff0_0000_0000_0001, // negative signalling NaN
];

pub fn floats_case(classes: &[usize], mantissas: &[Option<u32>], evals: &mut usize) -> Vec<Value> {
    let mut out = vec![];
    let base: Vec<f64> = classes.iter().map(|c| f64::from_bits(FCLASSES[*c])).collect();
    // the sequence itself, and the sequence repeated with a varying low word (exercises window reuse and regret)
    let mut rep = base.clone();
    for r in 1..4u64 {
        rep.extend(base.iter().map(|f| f64::from_bits(f.to_bits() ^ (r * 0x0101))));
    }
    for fs in [base, rep] {
        for m in mantissas {
            for regret in [0u32, 3, 100] {
                *evals += 1;
                let r = catch_unwind(AssertUnwindSafe(|| xor_float::double::decode(&xor_float::double::encode(&fs, regret, *m))));
                crate::util::take_panics();
                let mask = match m {
                    Some(m) => u64::MAX - ((1u64 << (52 - m)) - 1),
                    None => u64::MAX,
                };
                let bits: Vec<String> = fs.iter().map(|f| format!("{:016x}", f.to_bits())).collect();
                match r {
                    Ok(Ok(dec)) => {
                        if dec.len() != fs.len() {
                            out.push(json!({"oracle": "float-round-trip", "classes": classes, "what": format!("{:?} mantissa {:?} regret {}: {} values decoded", bits, m, regret, dec.len())}));
                        } else if let Some(i) = (0..fs.len()).find(|i| (dec[*i].to_bits() ^ fs[*i].to_bits()) & mask != 0) {
                            out.push(json!({"oracle": "float-round-trip", "classes": classes,
                                "what": format!("{:?} mantissa {:?} regret {}: value {} decodes to {:016x}", bits, m, regret, i, dec[i].to_bits())}));
                        }
                    }
                    Ok(Err(e)) => out.push(json!({"oracle": "float-round-trip", "classes": classes, "what": format!("{:?} mantissa {:?} regret {}: decode error {:?}", bits, m, regret, e)})),
                    Err(p) => out.push(json!({"oracle": "float-round-trip", "classes": classes, "what": format!("{:?} mantissa {:?} regret {}: panic {}", bits, m, regret, panic_message(p))})),
                }
                if out.len() > 3 {
                    return out;
                }
            }
        }
    }
    out
}

// ------------------------------------------------------------------------------------------------ responses

/// a response with one column of every kind goes through MultiQueryResponse / QueryResponse unchanged
pub fn response_family() -> Vec<Value> {
    let mut out = vec![];
    let floats: Vec<f64> = FCLASSES.iter().map(|b| f64::from_bits(*b)).collect();
    let cols: Vec<(String, Column)> = vec![
        ("f".to_string(), Column::Float(floats.clone())),
        ("i".to_string(), Column::Int(vec![i64::MIN, -1, 0, 1, i64::MAX])),
        ("s".to_string(), Column::String(STRS.iter().map(|s| s.to_string()).collect())),
        ("m".to_string(), Column::Mixed(vec![AnyVal::Int(i64::MIN), AnyVal::Float(f64::from_bits(FCLASSES[5])), AnyVal::Str("ü".to_string()), AnyVal::Null, AnyVal::Float(-0.0)])),
        ("n".to_string(), Column::Null(7)),
        ("x".to_string(), Column::Xor(xor_float::double::encode(&floats, 100, None))),
        ("".to_string(), Column::Int(vec![])),
        ("e".to_string(), Column::Float(vec![])),
        ("es".to_string(), Column::String(vec![])),
        ("n0".to_string(), Column::Null(0)),
    ];
    let same = |a: &Column, b: &Column| -> bool {
        match (a, b) {
            (Column::Float(x), Column::Float(y)) => x.len() == y.len() && x.iter().zip(y).all(|(p, q)| p.to_bits() == q.to_bits()),
            (Column::Int(x), Column::Int(y)) => x == y,
            (Column::String(x), Column::String(y)) => x == y,
            (Column::Null(x), Column::Null(y)) => x == y,
            (Column::Xor(x), Column::Xor(y)) => x == y,
            (Column::Mixed(x), Column::Mixed(y)) => {
                x.len() == y.len()
                    && x.iter().zip(y).all(|(p, q)| match (p, q) {
                        (AnyVal::Int(a), AnyVal::Int(b)) => a == b,
                        (AnyVal::Float(a), AnyVal::Float(b)) => a.to_bits() == b.to_bits(),
                        (AnyVal::Str(a), AnyVal::Str(b)) => a == b,
                        (AnyVal::Null, AnyVal::Null) => true,
                        _ => false,
                    })
            }
            _ => false,
        }
    };
    let mk = || QueryResponse { columns: cols.iter().cloned().collect() };
    let q = mk();
    let m = MultiQueryResponse { responses: vec![mk(), QueryResponse { columns: Default::default() }, mk()] };
    let r = catch_unwind(AssertUnwindSafe(|| (QueryResponse::deserialize(&q.serialize()), MultiQueryResponse::deserialize(&m.serialize()))));
    crate::util::take_panics();
    match r {
        Ok((Ok(q2), Ok(m2))) => {
            let mut all = vec![("QueryResponse", q2)];
            if m2.responses.len() != 3 || !m2.responses[1].columns.is_empty() {
                out.push(vio("response-codec", format!("MultiQueryResponse with 3 responses decodes to {} responses", m2.responses.len())));
            } else {
                let mut it = m2.responses.into_iter();
                all.push(("MultiQueryResponse[0]", it.next().unwrap()));
                it.next();
                all.push(("MultiQueryResponse[2]", it.next().unwrap()));
            }
            for (what, q2) in all {
                if q2.columns.len() != cols.len() {
                    out.push(vio("response-codec", format!("{}: {} columns decoded from {}", what, q2.columns.len(), cols.len())));
                    continue;
                }
                for (n1, c1) in cols.iter() {
                    match q2.columns.get(n1) {
                        Some(c2) if same(c1, c2) => {}
                        c2 => out.push(vio("response-codec", format!("{}: column {:?} = {:?} decodes to {:?}", what, n1, c1, c2).chars().take(500).collect())),
                    }
                }
            }
        }
        Ok((a, b)) => out.push(vio("response-codec", format!("deserialize errors: {:?} {:?}", a.err(), b.err()))),
        Err(p) => out.push(vio("response-codec", format!("panic {}", panic_message(p)))),
    }
    let _ = EncodingOpts { xor_float_compression: true, mantissa: None, full_precision_cols: Default::default() };
    out
}

// ------------------------------------------------------------------------------------------------ XorFloat.tla conformance

/// LSB-first bit reader over the coder's byte stream (bitbuffer, LittleEndian)
struct Bits<'a> {
    d: &'a [u8],
    pos: usize,
}
impl<'a> Bits<'a> {
    fn read(&mut self, n: usize) -> Option<u64> {
        let mut v = 0u64;
        for k in 0..n {
            let i = self.pos + k;
            if i / 8 >= self.d.len() {
                return None;
            }
            v |= (((self.d[i / 8] >> (i % 8)) & 1) as u64) << k;
        }
        self.pos += n;
        Some(v)
    }
}

/// the token stream of an encoded message: (kind, leading zeros, significant bits, payload)
pub fn xor_tokens(data: &[u8]) -> Option<Vec<(String, u64, u64, u64)>> {
    let mut b = Bits { d: data, pos: 0 };
    let n = b.read(64)? as usize;
    if n == 0 {
        return Some(vec![]);
    }
    b.read(64)?;
    let mut out = vec![];
    let mut sig = 0u64;
    for _ in 1..n {
        if b.read(1)? == 0 {
            out.push(("same".to_string(), 0, 0, 0));
        } else if b.read(1)? == 1 {
            let lz = b.read(5)?;
            sig = b.read(6)? + 1;
            out.push(("new".to_string(), lz, sig, b.read(sig as usize)?));
        } else {
            out.push(("reuse".to_string(), 0, sig, b.read(sig as usize)?));
        }
    }
    Some(out)
}

/// One sequence of MC_xor: 15-bit words (sign, 11 exponent bits, 3 mantissa bits) lifted by 49 bits are f64 values.
/// Post-condition (violation if broken): decode(encode) keeps the unmasked bits. Conformance (reported, not a
/// violation: a different lossless choice is allowed): the real token stream equals the specification's.
pub fn xor_case(v: &Value, evals: &mut usize, token_mismatch: &mut usize) -> Vec<Value> {
    let mut out = vec![];
    let fs: Vec<f64> = v["fs"].as_array().unwrap().iter().map(|x| f64::from_bits(x.as_u64().unwrap() << 49)).collect();
    // (TLC renders a function over 0..n as an object keyed by "0".."n")
    let per_ms: Vec<Value> = match &v["enc"] {
        Value::Array(a) => a.clone(),
        Value::Object(o) => {
            let mut ks: Vec<usize> = o.keys().map(|k| k.parse().unwrap()).collect();
            ks.sort();
            ks.iter().map(|k| o[&k.to_string()].clone()).collect()
        }
        _ => vec![],
    };
    for (mi, per_m) in per_ms.iter().enumerate() {
        let m: Option<u32> = if mi == 0 { None } else { Some(mi as u32 - 1) };
        for (ri, toks) in per_m.as_array().unwrap().iter().enumerate() {
            let regret = [0u32, 3, 100][ri];
            *evals += 1;
            let r = catch_unwind(AssertUnwindSafe(|| {
                let e = xor_float::double::encode(&fs, regret, m);
                (xor_float::double::decode(&e), e)
            }));
            crate::util::take_panics();
            let mask = match m {
                Some(m) => u64::MAX - ((1u64 << (52 - m)) - 1),
                None => u64::MAX,
            };
            match r {
                Ok((Ok(dec), bytes)) => {
                    if dec.len() != fs.len() || (0..fs.len()).any(|i| (dec[i].to_bits() ^ fs[i].to_bits()) & mask != 0) {
                        out.push(json!({"oracle": "float-round-trip", "what": format!("{:?} mantissa {:?} regret {}: decodes to {:?}", fs.iter().map(|f| format!("{:016x}", f.to_bits())).collect::<Vec<_>>(), m, regret, dec.iter().map(|f| format!("{:016x}", f.to_bits())).collect::<Vec<_>>())}));
                    }
                    let want: Vec<(String, u64, u64, u64)> = toks
                        .as_array()
                        .unwrap()
                        .iter()
                        .map(|t| (t["t"].as_str().unwrap().to_string(), t["lz"].as_u64().unwrap(), t["sig"].as_u64().unwrap(), t["bits"].as_u64().unwrap()))
                        .collect();
                    if xor_tokens(&bytes) != Some(want) {
                        *token_mismatch += 1;
                    }
                }
                Ok((Err(e), _)) => out.push(json!({"oracle": "float-round-trip", "what": format!("mantissa {:?} regret {}: decode error {:?}", m, regret, e)})),
                Err(p) => out.push(json!({"oracle": "float-round-trip", "what": format!("mantissa {:?} regret {}: panic {}", m, regret, panic_message(p))})),
            }
        }
    }
    out
}
