//! C06: exact values / classes computed by Int64.tla (MC_arith) compared with the engine's checked arithmetic.
use std::sync::Arc;

use locustdb::LocustDB;
use serde_json::{json, Value};

use crate::cells::Cell;
use crate::db::{self, Cfg};
use crate::evbuf::{event_buffer, ColData, TableData};
use crate::util::Outcome;

/// limbs (base 2^15, little endian) + sign -> i128
pub fn num(v: &Value) -> i128 {
    let mut x: i128 = 0;
    for l in v["mag"].as_array().unwrap().iter().rev() {
        x = x * 32768 + l.as_i64().unwrap() as i128;
    }
    if v["neg"].as_bool().unwrap() {
        -x
    } else {
        x
    }
}

fn q(db: &Arc<LocustDB>, sql: &str) -> Result<Vec<Vec<Cell>>, String> {
    let before = crate::util::panic_count();
    let r = std::panic::catch_unwind(std::panic::AssertUnwindSafe(|| {
        crate::util::block_on_timeout(db.run_query(sql, false, true, vec![]), std::time::Duration::from_secs(10))
    }));
    match r {
        Ok(None) => Err(format!("FATAL no answer within 10 s | panics {:?}", crate::util::take_panics().iter().take(1).collect::<Vec<_>>())),
        Ok(Some(Ok(out))) => Ok(db::to_answer(&out).rows),
        Ok(Some(Err(e))) => {
            if crate::util::panic_count() > before {
                Err(format!("FATAL a database thread panicked: {:?} | {:?}", e, crate::util::take_panics().iter().take(1).collect::<Vec<_>>()))
            } else {
                Err(format!("ERR {:?}", e))
            }
        }
        Err(e) => Err(format!("FATAL panic in the caller: {}", crate::util::panic_message(e))),
    }
}

/// judge one outcome against (class, exact value)
fn judge(cls: &str, exact: i128, got: &Result<Vec<Vec<Cell>>, String>) -> Result<(), String> {
    // 2^63-1 is reserved by the engine as its NULL marker and is not part of the value domain:
    // an expression whose exact value is that number may come back as itself, as NULL or as an error
    if exact == i64::MAX as i128 && cls != "fail" {
        return match got {
            Err(e) if e.starts_with("FATAL") => Err(e.clone()),
            Err(_) => Ok(()),
            Ok(rows) if rows.len() == 1 && rows[0].len() == 1 && (rows[0][0] == Cell::Null || rows[0][0] == Cell::Int(i64::MAX)) => Ok(()),
            Ok(rows) => Err(format!("returned {:?}, the exact value is the reserved 2^63-1", rows.iter().take(2).collect::<Vec<_>>())),
        };
    }
    match got {
        Err(e) if e.starts_with("FATAL") => Err(e.clone()),
        Err(_) => {
            if cls == "exact" {
                Err(format!("the query failed although every sub-term fits ({})", got.as_ref().err().unwrap()))
            } else {
                Ok(())
            }
        }
        Ok(rows) => {
            if rows.len() != 1 || rows[0].len() != 1 {
                return Err(format!("expected one cell, got {:?}", rows.iter().take(3).collect::<Vec<_>>()));
            }
            match &rows[0][0] {
                Cell::Int(v) if cls != "fail" && *v as i128 == exact => Ok(()),
                Cell::Int(v) if cls == "fail" => Err(format!("returned {} although the exact result {} does not fit / a division by zero is evaluated", v, exact)),
                c => Err(format!("returned {}, the exact value is {}", c.short(), exact)),
            }
        }
    }
}

pub fn run(meta: &Value, rows: &[Value], seed: usize, only_row: Option<usize>) -> Value {
    crate::util::take_panics();
    let edges: Vec<i128> = meta["edges"].as_array().unwrap().iter().map(num).collect();
    let small3: Vec<i128> = meta["small3"].as_array().unwrap().iter().map(num).collect();
    let ops: Vec<String> = meta["ops"].as_array().unwrap().iter().map(|o| o.as_str().unwrap().to_string()).collect();
    let mut vio: Vec<Value> = vec![];
    let (mut evals, mut nontrivial) = (0usize, 0usize);
    let db = db::open(None, &Cfg::default()).done().expect("open");
    for row in rows {
        let i = row["idx"].as_u64().unwrap() as usize; // 1-based index of operand a
        if only_row.map(|o| o != i).unwrap_or(false) {
            continue;
        }
        let a = num(&row["row"]["a"]);
        // one table per operand a: rows = all b, plus a nullable column and constants
        let n = edges.len();
        let tname = format!("t{}", i);
        let t = TableData {
            name: tname.clone(),
            len: n as u64,
            cols: vec![
                ("id".into(), ColData::I64((0..n as i64).collect())),
                ("a".into(), ColData::I64(vec![a as i64; n])),
                ("b".into(), ColData::I64(edges.iter().map(|x| *x as i64).collect())),
                ("n".into(), ColData::SparseI64(vec![(0, 3)])),
            ],
        };
        // narrow encodings: a second table holding only the operands that fit 16 bits (offset / u8 / u16 codecs)
        let small_idx: Vec<usize> = (0..n).filter(|j| edges[*j].abs() < 70_000).collect();
        let tsmall = TableData {
            name: format!("s{}", i),
            len: small_idx.len() as u64,
            cols: vec![
                ("id".into(), ColData::I64(small_idx.iter().map(|j| *j as i64).collect())),
                ("a".into(), ColData::I64(vec![a as i64; small_idx.len()])),
                ("b".into(), ColData::I64(small_idx.iter().map(|j| edges[*j] as i64).collect())),
            ],
        };
        let _ = db::ingest(&db, event_buffer(&[t, tsmall]));
        for j in 0..n {
            for (o, op) in ops.iter().enumerate() {
                let c = &row["row"]["d1"][j][o];
                let cls = c["cls"].as_str().unwrap();
                let exact = num(&c["v"]);
                if cls != "exact" {
                    nontrivial += 1;
                }
                let forms = [
                    format!("SELECT a {} b FROM {} WHERE id = {}", op, tname, j),
                    format!("SELECT a {} {} FROM {} WHERE id = {}", op, edges[j], tname, j),
                    format!("SELECT a {} b FROM s{} WHERE id = {}", op, i, j),
                ];
                for (fi, sql) in forms.iter().enumerate() {
                    if fi == 2 && !small_idx.contains(&j) {
                        continue;
                    }
                    if fi == 1 && ((seed + i + j + o) % 3 != 0 || edges[j] == i64::MIN as i128) {
                        continue; // a third of the constant forms; -2^63 cannot be written as a literal
                    }
                    evals += 1;
                    let got = q(&db, sql);
                    if let Err(e) = judge(cls, exact, &got) {
                        let fatal = e.starts_with("FATAL");
                        vio.push(json!({"prop": "C06", "oracle": if fatal { "completes" } else { "value" }, "sql": sql, "class": cls, "exact": exact.to_string(), "what": e}));
                        if fatal || vio.len() > 40 {
                            return json!({"evals": evals, "nontrivial": nontrivial, "violations": vio, "panics": crate::util::take_panics()});
                        }
                    }
                }
                // depth 2
                if let Some(d2) = row["row"]["d2"].as_array() {
                    if !d2.is_empty() {
                        for (ci, c3) in small3.iter().enumerate() {
                            if *c3 == i64::MIN as i128 {
                                continue;
                            }
                            for (o2, op2) in ops.iter().enumerate() {
                                if (i + j + ci + o + o2 + seed) % 4 != 0 {
                                    continue;
                                }
                                let e = &d2[j][ci][o][o2];
                                for (side, sql) in [("l", format!("SELECT (a {} b) {} {} FROM {} WHERE id = {}", op, op2, c3, tname, j)),
                                                    ("r", format!("SELECT a {} (b {} {}) FROM {} WHERE id = {}", op, op2, c3, tname, j))] {
                                    let cls = e[side]["cls"].as_str().unwrap();
                                    let exact = num(&e[side]["v"]);
                                    evals += 1;
                                    if cls == "either" {
                                        nontrivial += 1;
                                    }
                                    let got = q(&db, &sql);
                                    if let Err(w) = judge(cls, exact, &got) {
                                        let fatal = w.starts_with("FATAL");
                                        vio.push(json!({"prop": "C06", "oracle": if fatal { "completes" } else { "value" }, "sql": sql, "class": cls, "exact": exact.to_string(), "what": w}));
                                        if fatal || vio.len() > 40 {
                                            return json!({"evals": evals, "nontrivial": nontrivial, "violations": vio, "panics": crate::util::take_panics()});
                                        }
                                    }
                                }
                            }
                        }
                    }
                }
            }
        }
        // several rows per query: the whole query fails as soon as one (non-NULL) row overflows or divides by zero,
        // wherever that row sits in the batch; otherwise every row has its exact value and NULL operands give NULL
        {
            let null_at = |j: usize| j % 4 == 1;
            let tm = TableData {
                name: format!("m{}", i),
                len: n as u64,
                cols: vec![
                    ("id".into(), ColData::I64((0..n as i64).collect())),
                    ("a".into(), ColData::I64(vec![a as i64; n])),
                    ("b".into(), ColData::I64(edges.iter().map(|x| *x as i64).collect())),
                    ("bn".into(), ColData::SparseI64((0..n).filter(|j| !null_at(*j)).map(|j| (j as u64, edges[j] as i64)).collect())),
                ],
            };
            let _ = db::ingest(&db, event_buffer(&[tm]));
            let mut windows: Vec<(usize, usize)> = vec![(0, n)];
            let mut lo = (seed + i) % 2;
            while lo + 4 <= n {
                windows.push((lo, lo + 4));
                lo += 2;
            }
            for (o, op) in ops.iter().enumerate() {
                for (wi, (lo, hi)) in windows.iter().enumerate() {
                    for form in 0..4 {
                        if (form == 1 || form == 3) && a == i64::MIN as i128 {
                            continue;
                        }
                        if (seed + i + o + wi + form) % 2 == 1 && wi > 0 {
                            continue; // half of the windows per form and run
                        }
                        let nullable = form >= 2;
                        let lhs = if form % 2 == 0 { "a".to_string() } else { format!("{}", a) };
                        let sql = format!("SELECT id, {} {} {} FROM m{} WHERE id >= {} AND id < {}", lhs, op, if nullable { "bn" } else { "b" }, i, lo, hi);
                        let live: Vec<usize> = (*lo..*hi).filter(|j| !(nullable && null_at(*j))).collect();
                        let cells: Vec<(&str, i128)> = live.iter().map(|j| (row["row"]["d1"][*j][o]["cls"].as_str().unwrap(), num(&row["row"]["d1"][*j][o]["v"]))).collect();
                        if cells.iter().any(|(c, v)| *c != "fail" && *v == i64::MAX as i128) {
                            continue; // the reserved value 2^63-1
                        }
                        let must_fail = cells.iter().any(|(c, _)| *c == "fail");
                        evals += 1;
                        if must_fail {
                            nontrivial += 1;
                        }
                        let verdict: Result<(), String> = match q(&db, &sql) {
                            Err(e) if e.starts_with("FATAL") => Err(e),
                            Err(e) => if must_fail { Ok(()) } else { Err(format!("the query failed although every row fits ({})", e)) },
                            Ok(mut rows) => {
                                if must_fail {
                                    let j = live[cells.iter().position(|(c, _)| *c == "fail").unwrap()];
                                    Err(format!("returned {} rows although row id = {} ({} {} {}) overflows / divides by zero", rows.len(), j, a, op, edges[j]))
                                } else {
                                    rows.sort_by_key(|r| if let Cell::Int(k) = r[0] { k } else { -1 });
                                    let want: Vec<Vec<Cell>> = (*lo..*hi)
                                        .map(|j| vec![Cell::Int(j as i64), if nullable && null_at(j) { Cell::Null } else { Cell::Int(num(&row["row"]["d1"][j][o]["v"]) as i64) }])
                                        .collect();
                                    if rows == want { Ok(()) } else { Err(format!("returned {:?}, expected {:?}", rows.iter().map(|r| r[1].short()).collect::<Vec<_>>(), want.iter().map(|r| r[1].short()).collect::<Vec<_>>())) }
                                }
                            }
                        };
                        if let Err(w) = verdict {
                            let fatal = w.starts_with("FATAL");
                            vio.push(json!({"prop": "C06", "oracle": if fatal { "completes" } else { "rows" }, "sql": sql, "class": if must_fail { "fail" } else { "exact" }, "exact": "", "what": w}));
                            if fatal || vio.len() > 40 {
                                return json!({"evals": evals, "nontrivial": nontrivial, "violations": vio, "panics": crate::util::take_panics()});
                            }
                        }
                    }
                }
            }
        }
        // a NULL operand makes the result NULL, not an error
        for op in &ops {
            for sql in [format!("SELECT a {} n FROM {} WHERE id = 1", op, tname), format!("SELECT n {} a FROM {} WHERE id = 1", op, tname),
                        format!("SELECT a {} zz FROM {} WHERE id = 1", op, tname)] {
                evals += 1;
                match q(&db, &sql) {
                    Ok(rows) if rows == vec![vec![Cell::Null]] => {}
                    other => vio.push(json!({"prop": "C06", "oracle": "null", "sql": sql, "what": format!("expected NULL, got {:?}", other)})),
                }
            }
        }
    }
    json!({"evals": evals, "nontrivial": nontrivial, "violations": vio, "panics": crate::util::take_panics()})
}

/// SUM over 1-3 partitions, with and without a grouping column
pub fn run_sums(meta: &Value, seed: usize) -> Value {
    crate::util::take_panics();
    let vals: Vec<i128> = meta["sumset"].as_array().unwrap().iter().map(num).collect();
    let mut vio: Vec<Value> = vec![];
    let (mut evals, mut nontrivial) = (0usize, 0usize);
    let n = vals.len();
    let layouts: [&[usize]; 3] = [&[3], &[1, 2], &[1, 1, 1]];
    for (li, lay) in layouts.iter().enumerate() {
        for x in 0..n {
            // one database per (layout, x): tables for all (y, z)
            let dir = tempfile::tempdir().expect("tempdir");
            let db = db::open(Some(dir.path()), &Cfg { combine_factor: 999, ..Cfg::default() }).done().expect("open");
            let mut start = 0usize;
            for (bi, cnt) in lay.iter().enumerate() {
                let mut tables = vec![];
                for y in 0..n {
                    for z in 0..n {
                        let trip = [vals[x], vals[y], vals[z]];
                        let part: Vec<i64> = trip[start..start + cnt].iter().map(|v| *v as i64).collect();
                        tables.push(TableData {
                            name: format!("s_{}_{}", y, z),
                            len: *cnt as u64,
                            cols: vec![("v".into(), ColData::I64(part)), ("g".into(), ColData::I64(vec![7; *cnt])), ("h".into(), ColData::Str(vec!["k".to_string(); *cnt]))],
                        });
                    }
                }
                let _ = db::ingest(&db, event_buffer(&tables));
                if bi + 1 < lay.len() || (seed + x) % 2 == 0 {
                    let _ = db::flush(&db);
                }
                start += cnt;
            }
            for y in 0..n {
                for z in 0..n {
                    let c = &meta["sums"][x][y][z];
                    let cls = c["cls"].as_str().unwrap();
                    let exact = num(&c["v"]);
                    if cls != "exact" {
                        nontrivial += 1;
                    }
                    for (k, sql) in [format!("SELECT SUM(v) FROM s_{}_{}", y, z), format!("SELECT g, SUM(v) FROM s_{}_{}", y, z), format!("SELECT h, SUM(v) FROM s_{}_{}", y, z)].iter().enumerate() {
                        evals += 1;
                        let got = q(&db, sql).map(|rows| rows.into_iter().map(|r| vec![r[r.len() - 1].clone()]).collect::<Vec<_>>());
                        if let Err(w) = judge(cls, exact, &got) {
                            let fatal = w.starts_with("FATAL");
                            vio.push(json!({"prop": "C06", "oracle": if fatal { "completes" } else { "sum" }, "sql": sql, "layout": li, "values": [vals[x].to_string(), vals[y].to_string(), vals[z].to_string()], "class": cls, "exact": exact.to_string(), "what": w}));
                            if fatal {
                                std::mem::forget(db);
                                return json!({"evals": evals, "nontrivial": nontrivial, "violations": vio, "panics": crate::util::take_panics()});
                            }
                        }
                        let _ = k;
                    }
                }
            }
        }
    }
    json!({"evals": evals, "nontrivial": nontrivial, "violations": vio, "panics": crate::util::take_panics()})
}
