//! Small utilities: a private block_on, deadlines, panic capture.
use std::future::Future;
use std::panic::{catch_unwind, AssertUnwindSafe};
use std::pin::Pin;
use std::sync::mpsc;
use std::sync::Arc;
use std::task::{Context, Poll, Wake, Waker};
use std::thread::{self, Thread};
use std::time::Duration;

struct ThreadWaker(Thread);
impl Wake for ThreadWaker {
    fn wake(self: Arc<Self>) {
        self.0.unpark();
    }
}

/// park/unpark executor. `futures::executor::block_on` must not be used to drive the embedded
/// API because ingestion nests a futures executor internally after a restart.
pub fn block_on<F: Future>(fut: F) -> F::Output {
    let mut fut: Pin<Box<F>> = Box::pin(fut);
    let waker: Waker = Arc::new(ThreadWaker(thread::current())).into();
    let mut cx = Context::from_waker(&waker);
    loop {
        match fut.as_mut().poll(&mut cx) {
            Poll::Ready(v) => return v,
            Poll::Pending => thread::park(),
        }
    }
}

/// `block_on` with a deadline: None when the future is still pending at the deadline (it is dropped)
pub fn block_on_timeout<F: Future>(fut: F, timeout: Duration) -> Option<F::Output> {
    let mut fut: Pin<Box<F>> = Box::pin(fut);
    let waker: Waker = Arc::new(ThreadWaker(thread::current())).into();
    let mut cx = Context::from_waker(&waker);
    let deadline = std::time::Instant::now() + timeout;
    loop {
        match fut.as_mut().poll(&mut cx) {
            Poll::Ready(v) => return Some(v),
            Poll::Pending => {
                let now = std::time::Instant::now();
                if now >= deadline {
                    return None;
                }
                thread::park_timeout(deadline - now);
            }
        }
    }
}

/// `block_on_timeout` that gives up early once a thread has panicked since the call started and the future
/// is still pending `grace` later (a query whose worker died never completes; waiting out the whole timeout
/// for every such query makes the families that contain known defects take hours)
pub fn block_on_timeout_panic_aware<F: Future>(fut: F, timeout: Duration, grace: Duration) -> Option<F::Output> {
    let mut fut: Pin<Box<F>> = Box::pin(fut);
    let waker: Waker = Arc::new(ThreadWaker(thread::current())).into();
    let mut cx = Context::from_waker(&waker);
    let start = std::time::Instant::now();
    let deadline = start + timeout;
    let before = panic_count();
    let mut panic_seen: Option<std::time::Instant> = None;
    loop {
        match fut.as_mut().poll(&mut cx) {
            Poll::Ready(v) => return Some(v),
            Poll::Pending => {
                let now = std::time::Instant::now();
                if now >= deadline {
                    return None;
                }
                if panic_seen.is_none() && panic_count() > before {
                    panic_seen = Some(now);
                }
                if let Some(t) = panic_seen {
                    if now >= t + grace {
                        return None;
                    }
                }
                thread::park_timeout((deadline - now).min(Duration::from_millis(40)));
            }
        }
    }
}

#[derive(Debug, Clone, PartialEq)]
pub enum Outcome<T> {
    Done(T),
    Panicked(String),
    TimedOut,
}

impl<T> Outcome<T> {
    pub fn done(self) -> Option<T> {
        match self {
            Outcome::Done(t) => Some(t),
            _ => None,
        }
    }
    pub fn describe(&self) -> String {
        match self {
            Outcome::Done(_) => "done".to_string(),
            Outcome::Panicked(m) => format!("panic: {}", m),
            Outcome::TimedOut => "timed out (hang)".to_string(),
        }
    }
}

pub fn panic_message(e: Box<dyn std::any::Any + Send>) -> String {
    if let Some(s) = e.downcast_ref::<&str>() {
        s.to_string()
    } else if let Some(s) = e.downcast_ref::<String>() {
        s.clone()
    } else {
        "<non-string panic>".to_string()
    }
}

/// Runs `f` on a fresh thread; a panic or a missed deadline of the code under test is data.
/// On a timeout the thread is abandoned (it may be stuck for ever).
pub fn with_deadline<T: Send + 'static, F: FnOnce() -> T + Send + 'static>(
    deadline: Duration,
    f: F,
) -> Outcome<T> {
    let (tx, rx) = mpsc::channel();
    let _ = thread::Builder::new()
        .name("lvh-op".to_string())
        .spawn(move || {
            let r = catch_unwind(AssertUnwindSafe(f));
            let _ = tx.send(r);
        })
        .expect("spawn");
    // Once some thread of the code under test has panicked, an operation that normally takes
    // milliseconds and has not returned `after_panic_grace()` later is reported as hung.
    let start = std::time::Instant::now();
    let mut panic_seen_at: Option<std::time::Instant> = None;
    let before = panic_count();
    loop {
        match rx.recv_timeout(Duration::from_millis(50)) {
            Ok(Ok(v)) => return Outcome::Done(v),
            Ok(Err(e)) => return Outcome::Panicked(panic_message(e)),
            Err(mpsc::RecvTimeoutError::Disconnected) => return Outcome::Panicked("operation thread vanished".into()),
            Err(mpsc::RecvTimeoutError::Timeout) => {
                if panic_seen_at.is_none() && panic_count() > before {
                    panic_seen_at = Some(std::time::Instant::now());
                }
                if let Some(t) = panic_seen_at {
                    if t.elapsed() >= after_panic_grace() {
                        return Outcome::TimedOut;
                    }
                }
                if start.elapsed() >= deadline {
                    return Outcome::TimedOut;
                }
            }
        }
    }
}

/// like `with_deadline`, but a panic in some other thread does not shorten the deadline
/// (for long batches of calls whose individual panics are attributed by the batch itself)
pub fn with_plain_deadline<T: Send + 'static, F: FnOnce() -> T + Send + 'static>(deadline: Duration, f: F) -> Outcome<T> {
    let (tx, rx) = mpsc::channel();
    let _ = thread::Builder::new()
        .name("lvh-batch".to_string())
        .spawn(move || {
            let r = catch_unwind(AssertUnwindSafe(f));
            let _ = tx.send(r);
        })
        .expect("spawn");
    match rx.recv_timeout(deadline) {
        Ok(Ok(v)) => Outcome::Done(v),
        Ok(Err(e)) => Outcome::Panicked(panic_message(e)),
        Err(_) => Outcome::TimedOut,
    }
}

pub fn after_panic_grace() -> Duration {
    let s: u64 = std::env::var("LVH_PANIC_GRACE_MS").ok().and_then(|s| s.parse().ok()).unwrap_or(3000);
    Duration::from_millis(s)
}

pub fn deadline() -> Duration {
    let s: u64 = std::env::var("LVH_DEADLINE_S")
        .ok()
        .and_then(|s| s.parse().ok())
        .unwrap_or(20);
    Duration::from_secs(s)
}

static PANICS: std::sync::Mutex<Vec<String>> = std::sync::Mutex::new(Vec::new());

/// Replace the default panic hook: panics of the code under test (in any thread) are recorded
/// as "message @ file:line" instead of being printed.
pub fn quiet_panics() {
    let verbose = std::env::var("LVH_VERBOSE_PANICS").is_ok();
    std::panic::set_hook(Box::new(move |info| {
        let msg = if let Some(s) = info.payload().downcast_ref::<&str>() {
            s.to_string()
        } else if let Some(s) = info.payload().downcast_ref::<String>() {
            s.clone()
        } else {
            "<non-string panic>".to_string()
        };
        let loc = info.location().map(|l| format!("{}:{}", l.file(), l.line())).unwrap_or_default();
        // the payload may hold invalid UTF-8 (produced by from_utf8_unchecked in the code under test)
        let bytes = msg.as_bytes();
        let mut msg: String = String::from_utf8_lossy(&bytes[..bytes.len().min(300)]).into_owned();
        msg.push_str(" @ ");
        msg.push_str(&loc);
        if verbose {
            eprintln!("[panic in {:?}] {}", std::thread::current().name(), msg);
        }
        PANICS.lock().unwrap_or_else(|e| e.into_inner()).push(msg);
    }));
}

pub fn take_panics() -> Vec<String> {
    std::mem::take(&mut *PANICS.lock().unwrap_or_else(|e| e.into_inner()))
}

pub fn panic_count() -> usize {
    PANICS.lock().unwrap_or_else(|e| e.into_inner()).len()
}

pub fn list_files(root: &std::path::Path) -> Vec<String> {
    fn walk(dir: &std::path::Path, root: &std::path::Path, out: &mut Vec<String>) {
        if let Ok(rd) = std::fs::read_dir(dir) {
            for e in rd.flatten() {
                let p = e.path();
                if p.is_dir() {
                    walk(&p, root, out);
                } else {
                    out.push(p.strip_prefix(root).unwrap().to_string_lossy().to_string());
                }
            }
        }
    }
    let mut out = vec![];
    walk(root, root, &mut out);
    out.sort();
    out
}

pub fn copy_dir(src: &std::path::Path, dst: &std::path::Path) -> std::io::Result<()> {
    std::fs::create_dir_all(dst)?;
    for e in std::fs::read_dir(src)? {
        let e = e?;
        let p = e.path();
        let d = dst.join(e.file_name());
        if p.is_dir() {
            copy_dir(&p, &d)?;
        } else {
            std::fs::copy(&p, &d)?;
        }
    }
    Ok(())
}
