//! C12: statements emitted by MC_sql (SqlGrammar.tla) run through `run_query` under catch_unwind and a deadline;
//! result-shape contract checked on every answer. Character-level single edits are added by the harness.
use std::sync::Arc;

use locustdb::LocustDB;
use serde_json::{json, Value};

use crate::cells::Cell;
use crate::db::{self, Cfg};
use crate::evbuf::{event_buffer, ColData, TableData};

fn rows(seq: i64, n: usize) -> Vec<TableData> {
    vec![TableData {
        name: "t".into(),
        len: n as u64,
        cols: vec![
            ("a".into(), ColData::I64((0..n as i64).map(|i| seq + i).collect())),
            ("s".into(), ColData::Str((0..n).map(|i| format!("s{}", i % 3)).collect())),
            ("n".into(), ColData::SparseI64(vec![(0, 7)])),
        ],
    }]
}

pub fn build(state: usize) -> (Arc<LocustDB>, Option<tempfile::TempDir>) {
    if state == 0 {
        let db = db::open(None, &Cfg::default()).done().expect("open");
        let _ = db::ingest(&db, event_buffer(&rows(0, 5)));
        (db, None)
    } else {
        let dir = tempfile::tempdir().expect("tempdir");
        let db = db::open(Some(dir.path()), &Cfg { combine_factor: 999, ..Cfg::default() }).done().expect("open");
        for k in 0..3 {
            let _ = db::ingest(&db, event_buffer(&rows(k * 10, 4)));
            let _ = db::flush(&db);
        }
        let _ = db::ingest(&db, event_buffer(&rows(100, 2)));
        (db, Some(dir))
    }
}

pub enum Res {
    Ok(db::Answer),
    Err(String),
    Fatal(String),
}

pub fn run_stmt(db: &Arc<LocustDB>, sql: &str) -> Res {
    let before = crate::util::panic_count();
    let r = std::panic::catch_unwind(std::panic::AssertUnwindSafe(|| {
        crate::util::block_on_timeout(db.run_query(sql, false, true, vec![]), std::time::Duration::from_secs(4))
    }));
    match r {
        Err(e) => Res::Fatal(format!("panic in the caller: {}", crate::util::panic_message(e))),
        Ok(None) => Res::Fatal(format!("no answer within 4 s | panics {:?}", crate::util::take_panics().iter().take(1).collect::<Vec<_>>())),
        Ok(Some(Ok(out))) => {
            if crate::util::panic_count() > before {
                return Res::Fatal(format!("a database thread panicked | {:?}", crate::util::take_panics().iter().take(1).collect::<Vec<_>>()));
            }
            Res::Ok(db::to_answer(&out))
        }
        Ok(Some(Err(e))) => {
            if crate::util::panic_count() > before {
                return Res::Fatal(format!("a database thread panicked (caller saw {:?}) | {:?}", e, crate::util::take_panics().iter().take(1).collect::<Vec<_>>()));
            }
            Res::Err(format!("{:?}", e))
        }
    }
}

/// limit written in the statement, if it is a plain integer
fn limit_of(toks: &[String]) -> Option<usize> {
    toks.iter().position(|t| t == "LIMIT").and_then(|i| toks.get(i + 1)).and_then(|t| t.parse::<usize>().ok())
}

pub fn well_formed(a: &db::Answer, names: Option<&[String]>, limit: Option<usize>) -> Result<(), String> {
    if let Some(names) = names {
        if a.colnames != names {
            return Err(format!("column names {:?}, the select list says {:?}", a.colnames, names));
        }
    }
    // the engine answers a query that matches no partition with no columns at all; otherwise one column per name
    if !(a.columns.is_empty() && a.rows.is_empty()) {
        db::views_agree(a)?;
    }
    if let Some(l) = limit {
        if a.rows.len() > l {
            return Err(format!("{} rows for LIMIT {}", a.rows.len(), l));
        }
    }
    if names.is_some() {
        for (name, cells) in &a.columns {
            if name == "no_such_col" && cells.iter().any(|c| *c != Cell::Null) {
                return Err("an unknown column does not read as NULL".into());
            }
        }
    }
    Ok(())
}

pub fn run(kind: &str, stmts: &[Value], state: usize, shard: usize, of: usize, char_edits: bool) -> Value {
    crate::util::take_panics();
    let (mut db, _dir) = build(state);
    let mut vio: Vec<Value> = vec![];
    let (mut n, mut oks, mut errs) = (0usize, 0usize, 0usize);
    let hostile_chars: [&str; 14] = ["'", "\"", "`", "\0", "\\", "(", ";", "%", "é", "-", "*", "\n", ".", "😀"];
    let mut work: Vec<(String, Option<String>, Option<Vec<String>>, Vec<String>)> = vec![];
    for (i, s) in stmts.iter().enumerate() {
        if i % of != shard {
            continue;
        }
        let (toks, cls, names): (Vec<String>, Option<String>, Option<Vec<String>>) = if kind == "derive" {
            (
                s["toks"].as_array().unwrap().iter().map(|t| t.as_str().unwrap().to_string()).collect(),
                Some(s["cls"].as_str().unwrap().to_string()),
                Some(s["names"].as_array().unwrap().iter().map(|t| t.as_str().unwrap().to_string()).collect()),
            )
        } else {
            (s.as_array().unwrap().iter().map(|t| t.as_str().unwrap().to_string()).collect(), None, None)
        };
        let sql = toks.join(" ");
        if char_edits && kind == "derive" && i % 7 == 0 {
            // character-level single edits (contract only)
            let chars: Vec<char> = sql.chars().collect();
            for (k, h) in hostile_chars.iter().enumerate() {
                let pos = (i * 31 + k * 17) % chars.len().max(1);
                let mut e: String = chars[..pos].iter().collect();
                e.push_str(h);
                e.extend(chars[(pos + 1).min(chars.len())..].iter());
                work.push((e, None, None, toks.clone()));
            }
        }
        work.push((sql, cls, names, toks));
    }
    for (sql, cls, names, toks) in work {
        n += 1;
        let res = run_stmt(&db, &sql);
        let mut bad: Option<(&str, String)> = None;
        match (&res, cls.as_deref()) {
            (Res::Fatal(e), _) => bad = Some(("no-panic", e.clone())),
            (Res::Ok(a), Some("ok")) => {
                oks += 1;
                if let Err(e) = well_formed(a, names.as_deref(), limit_of(&toks)) {
                    bad = Some(("well-formed", e));
                }
            }
            (Res::Ok(_), Some("error")) => bad = Some(("error-value", "a result was returned, the specification classifies the statement as an error".into())),
            (Res::Err(e), Some("ok")) => bad = Some(("supported", format!("a supported statement failed: {}", &e[..e.len().min(200)]))),
            (Res::Err(_), _) => errs += 1,
            (Res::Ok(a), None) => {
                oks += 1;
                if let Err(e) = well_formed(a, None, None) {
                    bad = Some(("well-formed", e));
                }
            }
            (Res::Ok(_), Some(_)) => {}
        }
        if let Some((oracle, what)) = bad {
            let fatal = oracle == "no-panic";
            vio.push(json!({"prop": "C12", "oracle": oracle, "sql": sql, "what": what}));
            if fatal {
                // the database has lost a worker: continue on a fresh one
                std::mem::forget(std::mem::replace(&mut db, build(state).0));
            }
            if vio.len() > 400 {
                break;
            }
        }
    }
    if !vio.is_empty() {
        std::mem::forget(db);
    }
    json!({"kind": kind, "state": state, "statements": n, "ok": oks, "errors": errs, "violations": vio, "panics": crate::util::take_panics()})
}
