//! B3 (crash points): run a TLC-emitted workload once and photograph the database directory after
//! every primitive file-system effect (plus torn variants of every temp-file write); every image is
//! reopened and compared with the contents the specification admits at that prefix
//! (acknowledged requests, optionally plus the in-flight request taken whole), then crashed again
//! during its own recovery / first flush.
use std::collections::BTreeMap;
use std::path::{Path, PathBuf};
use std::sync::atomic::{AtomicUsize, Ordering};
use std::sync::{Arc, Mutex};

use locustdb::LocustDB;
use serde_json::{json, Value};

use crate::cells::Cell;
use crate::db::{self, Cfg};
use crate::evbuf::event_buffer;
use crate::hist::{self, Behaviour};
use crate::util::{copy_dir, Outcome};

#[derive(Clone, Debug)]
pub struct Image {
    pub dir: PathBuf,
    pub effect: usize,
    pub op_index: usize,
    pub what: String,
    pub torn: Option<String>,
}

struct Recorder {
    src: PathBuf,
    dst_root: PathBuf,
    images: Mutex<Vec<Image>>,
    op_index: AtomicUsize,
    counter: AtomicUsize,
    effects: Mutex<Vec<String>>,
}

impl Recorder {
    fn snap(&self, op: &str, path: &Path) {
        let n = self.counter.fetch_add(1, Ordering::SeqCst);
        let rel = path.strip_prefix(&self.src).unwrap_or(path).to_string_lossy().to_string();
        self.effects.lock().unwrap().push(format!("{} {}", op, rel));
        let dst = self.dst_root.join(format!("img{:04}", n));
        if copy_dir(&self.src, &dst).is_err() {
            return;
        }
        let base = Image {
            dir: dst.clone(),
            effect: n,
            op_index: self.op_index.load(Ordering::SeqCst),
            what: format!("{} {}", op, rel),
            torn: None,
        };
        let mut imgs = self.images.lock().unwrap();
        imgs.push(base.clone());
        if op == "write" {
            // the same instant with the temp file only partly on disk
            if let Ok(data) = std::fs::read(path) {
                let relp = path.strip_prefix(&self.src).unwrap_or(path);
                let mut lens = vec![1usize, data.len() / 2, data.len().saturating_sub(1)];
                lens.dedup();
                for (k, l) in lens.into_iter().enumerate() {
                    if l >= data.len() {
                        continue;
                    }
                    let d2 = self.dst_root.join(format!("img{:04}_t{}", n, k));
                    if copy_dir(&self.src, &d2).is_ok() {
                        let _ = std::fs::write(d2.join(relp), &data[..l]);
                        let mut im = base.clone();
                        im.dir = d2;
                        im.torn = Some(format!("temp file cut to {} of {} bytes", l, data.len()));
                        imgs.push(im);
                    }
                }
            }
        }
    }
}

fn install(rec: &Arc<Recorder>) {
    let r = rec.clone();
    locustdb::verif::set_fs_callback(Some(Arc::new(move |op: &str, path: &Path| r.snap(op, path))));
}

fn uninstall() {
    locustdb::verif::set_fs_callback(None);
}

/// full content of the database as the replay sees it: per user table the rows over the pool
/// columns, plus the catalogue name multisets
pub fn content(db: &Arc<LocustDB>, variant: usize, tables: &[String]) -> Result<BTreeMap<String, Vec<Vec<Cell>>>, String> {
    let mut out = BTreeMap::new();
    for t in tables {
        let sql = if t.starts_with("_meta_") {
            format!("SELECT {} FROM \"{}\"", if t == "_meta_tables" { "name" } else { "column_name" }, t)
        } else {
            format!(
                "SELECT {} FROM \"{}\"",
                hist::POOL.iter().map(|c| format!("\"{}\"", hist::col_name(variant, c))).collect::<Vec<_>>().join(", "),
                t
            )
        };
        match db::query(db, &sql) {
            Outcome::Done(Ok(a)) => {
                let mut rows = a.rows;
                if t.starts_with("_meta_") {
                    rows.sort_by_key(|r| r[0].short());
                }
                out.insert(t.clone(), rows);
            }
            Outcome::Done(Err(e)) => {
                if e.contains("does not exist") {
                    out.insert(t.clone(), vec![]);
                } else {
                    return Err(format!("{} failed: {}", sql, e));
                }
            }
            o => return Err(format!("{} -> {}", sql, o.describe())),
        }
    }
    Ok(out)
}

pub fn expected_content(b: &Behaviour, variant: usize, post: &BTreeMap<String, Vec<usize>>) -> BTreeMap<String, Vec<Vec<Cell>>> {
    let mut out = BTreeMap::new();
    for (t, reqs) in post {
        if t.starts_with("_meta_") {
            let mut names: Vec<String> = vec![];
            for &r in reqs {
                if let Some(c) = b.req_def[r - 1].iter().find(|c| &c.t == t) {
                    for n in &c.names {
                        names.push(if t == "_meta_tables" { n.clone() } else { hist::col_name(variant, n) });
                    }
                }
            }
            let mut rows: Vec<Vec<Cell>> = names.into_iter().map(|n| vec![Cell::Str(n)]).collect();
            rows.sort_by_key(|r| r[0].short());
            out.insert(t.clone(), rows);
        } else {
            out.insert(t.clone(), hist::expected_rows(b, variant, t, reqs, &hist::POOL));
        }
    }
    out
}

fn same(a: &BTreeMap<String, Vec<Vec<Cell>>>, b: &BTreeMap<String, Vec<Vec<Cell>>>, variant: usize) -> bool {
    if a.len() != b.len() {
        return false;
    }
    for (t, ra) in a {
        let rb = match b.get(t) {
            Some(r) => r,
            None => return false,
        };
        if t.starts_with("_meta_") {
            if ra != rb {
                return false;
            }
        } else {
            let mixed: Vec<bool> = hist::POOL.iter().map(|c| hist::is_mixed(hist::col_type(variant, c))).collect();
            if hist::compare_rows(ra, rb, &mixed).is_err() {
                return false;
            }
        }
    }
    true
}

fn brief(c: &BTreeMap<String, Vec<Vec<Cell>>>) -> String {
    c.iter().map(|(t, r)| format!("{}:{}", t, r.len())).collect::<Vec<_>>().join(" ")
}

pub struct CrashReport {
    pub images: usize,
    pub depth2_images: usize,
    pub inside_op_images: usize,
    pub effects: Vec<String>,
    pub violations: Vec<Value>,
}

/// Reopens one image and checks it. `admissible` are the contents the spec allows.
/// Returns violations; when `depth` is 1 the recovery and the first flush are themselves crashed.
#[allow(clippy::too_many_arguments)]
fn check_image(
    img: &Image,
    admissible: &[BTreeMap<String, Vec<Vec<Cell>>>],
    variant: usize,
    cfg: &Cfg,
    tables: &[String],
    depth: usize,
    scratch: &Path,
    report: &mut CrashReport,
    label: &str,
    deep_every: usize,
) {
    let mut fail = |oracle: &str, what: String, report: &mut CrashReport| {
        report.violations.push(json!({"prop": "C09", "oracle": oracle, "image": label, "effect": img.effect, "op_index": img.op_index,
            "at": img.what, "torn": img.torn, "depth": depth, "what": what}));
    };
    let rec = Arc::new(Recorder {
        src: img.dir.clone(),
        dst_root: scratch.join(format!("d2_{}", label)),
        images: Mutex::new(vec![]),
        op_index: AtomicUsize::new(img.op_index),
        counter: AtomicUsize::new(0),
        effects: Mutex::new(vec![]),
    });
    if depth == 1 {
        install(&rec);
    }
    crate::util::take_panics();
    let db = match db::open(Some(&img.dir), cfg) {
        Outcome::Done(d) => d,
        o => {
            uninstall();
            let p = crate::util::take_panics();
            fail("reopen", format!("opening the crashed image: {} | panics: {:?}", o.describe(), &p[..p.len().min(2)]), report);
            return;
        }
    };
    let got = match content(&db, variant, tables) {
        Ok(c) => c,
        Err(e) => {
            uninstall();
            fail("content", e, report);
            std::mem::forget(db);
            return;
        }
    };
    let which = admissible.iter().position(|a| same(a, &got, variant));
    if which.is_none() {
        uninstall();
        fail("content", format!("recovered content {{{}}} is none of the admissible contents {:?}", brief(&got), admissible.iter().map(brief).collect::<Vec<_>>()), report);
        return;
    }
    // the recovered database must keep working: flush, then ingest + query
    match db::flush(&db) {
        Outcome::Done(()) => {}
        o => {
            uninstall();
            let p = crate::util::take_panics();
            fail("flush-after-recovery", format!("force_flush on the recovered database: {} | panics: {:?}", o.describe(), &p[..p.len().min(2)]), report);
            std::mem::forget(db);
            return;
        }
    }
    uninstall();
    match content(&db, variant, tables) {
        // (compared with the specification's content again, not with the earlier reading: a
        // mixed-type column may legitimately degrade further when compaction rebuilds it)
        Ok(c) if same(&admissible[which.unwrap()], &c, variant) => {}
        Ok(c) => {
            fail("content", format!("content changed by the first flush after recovery: {{{}}} -> {{{}}}", brief(&got), brief(&c)), report);
            return;
        }
        Err(e) => {
            fail("content", e, report);
            return;
        }
    }
    if depth == 1 {
        // crash again at every effect of the recovery and of the first flush
        // (effects of the recovery itself always; effects of the first flush for every `deep_every`-th image)
        let imgs: Vec<Image> = rec.images.lock().unwrap().clone();
        let fixed = vec![admissible[which.unwrap()].clone()];
        let deep = deep_every > 0 && img.effect % deep_every == 0 && img.torn.is_none();
        for (k, im2) in imgs.iter().enumerate() {
            if !(deep || (im2.what.starts_with("remove") && im2.effect < 4)) {
                let _ = std::fs::remove_dir_all(&im2.dir);
                continue;
            }
            report.depth2_images += 1;
            check_image(im2, &fixed, variant, cfg, tables, 2, scratch, report, &format!("{}.{}", label, k), 0);
            let _ = std::fs::remove_dir_all(&im2.dir);
        }
        let _ = std::fs::remove_dir_all(&rec.dst_root);
        // canary: one more ingest, visible afterwards
        let canary = vec![crate::evbuf::TableData {
            name: "canary".to_string(),
            len: 1,
            cols: vec![("x".to_string(), crate::evbuf::ColData::I64(vec![42]))],
        }];
        match db::ingest(&db, event_buffer(&canary)) {
            Outcome::Done(()) => {}
            o => {
                fail("ingest-after-recovery", o.describe(), report);
                std::mem::forget(db);
                return;
            }
        }
        match db::query(&db, "SELECT x FROM canary") {
            Outcome::Done(Ok(a)) if a.rows == vec![vec![Cell::Int(42)]] => {}
            o => {
                fail("ingest-after-recovery", format!("canary query: {:?}", o.done()), report);
            }
        }
    }
}

pub fn run(b: &Behaviour, variant: usize, cfg: &Cfg, deep_every: usize) -> CrashReport {
    let work = tempfile::tempdir().expect("tempdir");
    let dbdir = work.path().join("db");
    std::fs::create_dir_all(&dbdir).unwrap();
    let imgroot = work.path().join("images");
    let rec = Arc::new(Recorder {
        src: dbdir.clone(),
        dst_root: imgroot.clone(),
        images: Mutex::new(vec![]),
        op_index: AtomicUsize::new(0),
        counter: AtomicUsize::new(0),
        effects: Mutex::new(vec![]),
    });
    let mut report = CrashReport { images: 0, depth2_images: 0, inside_op_images: 0, effects: vec![], violations: vec![] };
    let tables: Vec<String> = b.posts[0].keys().cloned().collect();
    install(&rec);
    let mut db = match db::open(Some(&dbdir), cfg) {
        Outcome::Done(d) => d,
        o => {
            uninstall();
            report.violations.push(json!({"prop": "C09", "oracle": "open", "what": o.describe()}));
            return report;
        }
    };
    for (step, op) in b.ops.iter().enumerate() {
        rec.op_index.store(step, Ordering::SeqCst);
        let out: Outcome<()> = match &op.op[..] {
            "ingest" => db::ingest(&db, event_buffer(&hist::build_request(variant, op.req, &b.req_def[op.req - 1]))),
            "flush" => db::flush(&db),
            "evict" => {
                db::evict(&db);
                Outcome::Done(())
            }
            "restart" => {
                drop(db);
                match db::open(Some(&dbdir), cfg) {
                    Outcome::Done(d) => {
                        db = d;
                        Outcome::Done(())
                    }
                    o => {
                        uninstall();
                        report.violations.push(json!({"prop": "C08", "oracle": "reopen", "step": step, "what": o.describe()}));
                        return report;
                    }
                }
            }
            _ => Outcome::Done(()),
        };
        if !matches!(out, Outcome::Done(())) {
            uninstall();
            report.violations.push(json!({"prop": "C11", "oracle": "op-completes", "step": step, "what": format!("{} -> {}", op.op, out.describe())}));
            std::mem::forget(db);
            return report;
        }
    }
    uninstall();
    drop(db);
    report.effects = rec.effects.lock().unwrap().clone();
    let images: Vec<Image> = rec.images.lock().unwrap().clone();
    let empty: BTreeMap<String, Vec<usize>> = b.posts[0].keys().map(|k| (k.clone(), vec![])).collect();
    for (k, img) in images.iter().enumerate() {
        report.images += 1;
        let before = if img.op_index == 0 { &empty } else { &b.posts[img.op_index - 1] };
        let after = &b.posts[img.op_index];
        let mut adm = vec![expected_content(b, variant, before)];
        if after != before {
            adm.push(expected_content(b, variant, after));
            report.inside_op_images += 1;
        } else if b.ops[img.op_index].op != "evict" {
            report.inside_op_images += 1;
        }
        check_image(img, &adm, variant, cfg, &tables, 1, work.path(), &mut report, &format!("{}", k), deep_every);
        let _ = std::fs::remove_dir_all(&img.dir);
        if report.violations.len() > 20 {
            break;
        }
    }
    report
}
