//! B1: replay of sequential API histories emitted by TLC from spec/mc/MC_hist_emit
//! (ops over {ingest(shape), force_flush, evict_cache, restart}); after every operation the
//! projection of the implementation is compared with the specification's `logical` content.
use std::collections::{BTreeMap, BTreeSet};
use std::path::Path;
use std::sync::Arc;

use locustdb::LocustDB;
use serde::{Deserialize, Serialize};
use serde_json::{json, Value};

use crate::cells::{cell_matches, Cell};
use crate::db::{self, Answer, Cfg};
use crate::evbuf::{col_from_cells, event_buffer, TableData};
use crate::util::{list_files, Outcome};

#[derive(Debug, Clone, Deserialize)]
pub struct Op {
    pub op: String,
    pub req: usize,
}

#[derive(Debug, Clone, Deserialize)]
pub struct Chunk {
    pub t: String,
    pub n: usize,
    pub names: Vec<String>,
}

#[derive(Debug, Clone, Deserialize)]
pub struct Behaviour {
    pub ops: Vec<Op>,
    pub posts: Vec<BTreeMap<String, Vec<usize>>>,
    #[serde(rename = "reqDef")]
    pub req_def: Vec<Vec<Chunk>>,
}

#[derive(Debug, Clone, Serialize)]
pub struct Violation {
    pub prop: String,
    pub step: usize,
    pub op: String,
    pub oracle: String,
    pub what: String,
}

fn scramble_ascii(k: usize, n: usize) -> String {
    let mut x = (k as u64).wrapping_mul(6364136223846793005).wrapping_add(1442695040888963407);
    (0..n)
        .map(|_| {
            x = x.wrapping_mul(6364136223846793005).wrapping_add(1442695040888963407);
            (b'!' + ((x >> 33) % 94) as u8) as char
        })
        .collect()
}

/// Value classes per variant (DESIGN §4.2, reduced): which type a pool column has.
#[derive(Debug, Clone, Copy, PartialEq)]
pub enum Ty {
    IntSmall,
    IntBig,
    IntNeg,
    Float,
    StrLow,
    StrHex,
    StrLong,
    StrUniq,
    StrRepeat,
    ByParity, // int for odd requests, float for even ones (degrades to float)
    IntThenStr, // int for odd requests, string for even ones (degrades to string)
}

/// variants 0..NUM_VARIANTS are used everywhere; KF_VARIANTS additionally produce the column shapes of
/// the known findings (hex-packed strings; lz4-compressible packed strings) and are only used by the
/// runs that confirm those findings.
pub const NUM_VARIANTS: usize = 5;
pub const KF_HEX: usize = 1_000_000;
pub const KF_LZ4STR: usize = 1_000_001;

fn scramble(k: usize, n: usize) -> String {
    // deterministic, poorly compressible lower-case text
    let mut x = (k as u64).wrapping_mul(6364136223846793005).wrapping_add(1442695040888963407);
    (0..n)
        .map(|_| {
            x = x.wrapping_mul(6364136223846793005).wrapping_add(1442695040888963407);
            (b'g' + ((x >> 33) % 20) as u8) as char
        })
        .collect()
}

pub fn col_type(variant: usize, col: &str) -> Ty {
    let base = col.trim_start_matches('s');
    if variant == KF_HEX {
        return if base == "c" { Ty::StrHex } else { Ty::IntSmall };
    }
    if variant == KF_LZ4STR {
        return if base == "c" { Ty::StrRepeat } else { Ty::IntSmall };
    }
    match (variant % NUM_VARIANTS, base) {
        (0, "a") => Ty::IntSmall,
        (0, "b") => Ty::Float,
        (0, _) => Ty::StrLow,
        (1, "a") => Ty::IntBig,
        (1, "b") => Ty::IntSmall,
        (1, _) => Ty::StrUniq,
        (2, "a") => Ty::Float,
        (2, "b") => Ty::StrLow,
        (2, _) => Ty::IntNeg,
        (3, "a") => Ty::ByParity,
        (3, "b") => Ty::Float,
        (3, _) => Ty::IntThenStr,
        (_, "a") => Ty::StrLong,
        (_, "b") => Ty::IntBig,
        (_, _) => Ty::Float,
    }
}

pub fn is_mixed(ty: Ty) -> bool {
    matches!(ty, Ty::ByParity | Ty::IntThenStr)
}

/// concrete column name for a pool name (C13: case pairs, non-ASCII, long names)
pub fn col_name(variant: usize, col: &str) -> String {
    if variant >= KF_HEX {
        return col.to_string();
    }
    match (variant % NUM_VARIANTS, col) {
        (2, "a") => "Alpha".to_string(),
        (2, "sb") => "alpha".to_string(),
        (2, "c") => "zz_last".to_string(),
        (4, "a") => "ünï_cödé".to_string(),
        (4, "sb") => format!("long_{}", scramble(7, 70)),
        (4, "c") => "0first".to_string(),
        (_, c) => c.to_string(),
    }
}

/// γ: the concrete cell of request `req`, row `idx`, pool column `col`.
pub fn gamma(variant: usize, col: &str, req: usize, idx: usize) -> Cell {
    // "sparse" pool columns: which rows of a request are NULL depends on request and variant, so that
    // over the rotation a column is fully present, half present (either half) or entirely NULL in a batch
    if col.starts_with('s') {
        let null = match (req + variant) % 4 {
            0 => false,
            1 => idx % 2 == 1,
            2 => idx % 2 == 0,
            _ => true,
        };
        if null {
            return Cell::Null;
        }
    }
    let k = (req * 10 + idx) as i64;
    match col_type(variant, col) {
        Ty::IntSmall => Cell::Int(k % 200),
        Ty::IntBig => Cell::Int((1i64 << 40) * req as i64 + idx as i64 - 7),
        Ty::IntNeg => Cell::Int(-1000 - k),
        Ty::Float => Cell::Float(k as f64 + 0.25 + if idx == 0 { 1e-9 } else { 0.0 }),
        Ty::StrLow => Cell::Str(format!("k{}", k % 3)),
        Ty::StrHex => Cell::Str(format!("deadbeef{:02x}{:02x}", req, idx)),
        // long enough to leave the dictionary / short-string paths, but with too much entropy for
        // lz4/pco to be chosen (compressed packed strings are known finding KF2)
        Ty::StrLong => Cell::Str(format!("{}{}", scramble_ascii(k as usize, 48 + (k as usize % 10)), k)),
        Ty::StrUniq => Cell::Str(format!("u{}_{}", k, scramble(k as usize, 6))),
        Ty::StrRepeat => Cell::Str(format!("{}{}", "w".repeat(120), k)),
        Ty::ByParity => {
            if req % 2 == 1 {
                Cell::Int(k)
            } else {
                Cell::Float(k as f64 + 0.5)
            }
        }
        Ty::IntThenStr => {
            if req % 2 == 1 {
                Cell::Int(k)
            } else {
                Cell::Str(format!("t{}", k))
            }
        }
    }
}

pub const POOL: [&str; 3] = ["a", "sb", "c"];

fn is_user_table(t: &str) -> bool {
    !t.starts_with("_meta_")
}

pub fn build_request(variant: usize, req: usize, chunks: &[Chunk]) -> Vec<TableData> {
    chunks
        .iter()
        .filter(|c| is_user_table(&c.t))
        .map(|c| TableData {
            name: c.t.clone(),
            len: c.n as u64,
            cols: c
                .names
                .iter()
                .map(|col| {
                    let cells: Vec<Cell> = (0..c.n).map(|i| gamma(variant, col, req, i)).collect();
                    (col_name(variant, col), col_from_cells(&cells))
                })
                .collect(),
        })
        .collect()
}

/// expected rows of user table `t` over the pool columns, given the spec's request sequence
pub fn expected_rows(b: &Behaviour, variant: usize, t: &str, reqs: &[usize], cols: &[&str]) -> Vec<Vec<Cell>> {
    let mut rows = vec![];
    for &r in reqs {
        let chunk = b.req_def[r - 1].iter().find(|c| c.t == t).expect("chunk");
        for i in 0..chunk.n {
            rows.push(
                cols.iter()
                    .map(|col| {
                        if chunk.names.iter().any(|n| n == col) {
                            gamma(variant, col, r, i)
                        } else {
                            Cell::Null
                        }
                    })
                    .collect(),
            );
        }
    }
    rows
}

fn names_in(b: &Behaviour, t: &str, reqs: &[usize]) -> Vec<String> {
    let mut v = vec![];
    for &r in reqs {
        if let Some(c) = b.req_def[r - 1].iter().find(|c| c.t == t) {
            v.extend(c.names.iter().cloned());
        }
    }
    v.sort();
    v
}

pub fn compare_rows(expected: &[Vec<Cell>], got: &[Vec<Cell>], mixed: &[bool]) -> Result<(), String> {
    if expected.len() != got.len() {
        return Err(format!("expected {} rows, got {}", expected.len(), got.len()));
    }
    for (i, (e, g)) in expected.iter().zip(got).enumerate() {
        if e.len() != g.len() {
            return Err(format!("row {}: expected {} cells, got {}", i, e.len(), g.len()));
        }
        for (j, (ec, gc)) in e.iter().zip(g).enumerate() {
            if !cell_matches(ec, gc, mixed[j]) {
                return Err(format!("row {} col {}: expected {}, got {}", i, j, ec.short(), gc.short()));
            }
        }
    }
    Ok(())
}

fn quote(name: &str) -> String {
    format!("\"{}\"", name)
}

pub struct Replay<'a> {
    pub b: &'a Behaviour,
    pub variant: usize,
    pub cfg: Cfg,
    pub violations: Vec<Violation>,
    pub steps_run: usize,
    pub queries_run: usize,
    pub check_files: bool,
}

fn op_prop(op: &str) -> &'static str {
    match op {
        "flush" | "evict" => "C07",
        "restart" => "C08",
        _ => "C13",
    }
}

impl<'a> Replay<'a> {
    fn fail(&mut self, prop: &str, step: usize, oracle: &str, what: String) {
        self.violations.push(Violation {
            prop: prop.to_string(),
            step,
            op: self.b.ops[step].op.clone(),
            oracle: oracle.to_string(),
            what,
        });
    }

    fn answer(&mut self, db: &Arc<LocustDB>, sql: &str, step: usize) -> Option<Result<Answer, String>> {
        self.queries_run += 1;
        match db::query(db, sql) {
            Outcome::Done(r) => Some(r),
            o => {
                self.fail("C11", step, "query-completes", format!("{} -> {}", sql, o.describe()));
                None
            }
        }
    }

    /// compares α(implementation) with the spec's post state of step `step`; false = stop
    fn verify(&mut self, db: &Arc<LocustDB>, dir: &Path, step: usize) -> bool {
        let b = self.b;
        let post = &b.posts[step];
        let op = b.ops[step].op.clone();
        let prop = op_prop(&op);
        let v = self.variant;
        for (t, reqs) in post.iter().filter(|(t, _)| is_user_table(t)) {
            let cols: Vec<&str> = POOL.to_vec();
            let mixed: Vec<bool> = cols.iter().map(|c| is_mixed(col_type(v, c))).collect();
            let expected = expected_rows(b, v, t, reqs, &cols);
            let sql = format!(
                "SELECT {} FROM {}",
                cols.iter().map(|c| quote(&col_name(v, c))).collect::<Vec<_>>().join(", "),
                quote(t)
            );
            match self.answer(db, &sql, step) {
                None => return false,
                Some(Err(e)) => {
                    if !expected.is_empty() {
                        self.fail(prop, step, "content", format!("{} failed: {}", sql, e));
                        return false;
                    }
                }
                Some(Ok(a)) => {
                    if let Err(e) = db::views_agree(&a) {
                        self.fail("C12", step, "views", format!("{}: {}", sql, e));
                        return false;
                    }
                    if let Err(e) = compare_rows(&expected, &a.rows, &mixed) {
                        self.fail(prop, step, "content", format!("{}: {}", sql, e));
                        return false;
                    }
                }
            }
            if expected.is_empty() {
                continue;
            }
            // SELECT *: exactly the columns ever ingested, sorted by name, each once (C13)
            let mut ever: Vec<&str> = POOL
                .iter()
                .cloned()
                .filter(|c| reqs.iter().any(|r| b.req_def[r - 1].iter().any(|ch| &ch.t == t && ch.names.iter().any(|n| n == c))))
                .collect();
            ever.sort_by_key(|c| col_name(v, c));
            let sql = format!("SELECT * FROM {}", quote(t));
            match self.answer(db, &sql, step) {
                None => return false,
                Some(Err(e)) => {
                    self.fail("C13", step, "select-star", format!("{} failed: {}", sql, e));
                    return false;
                }
                Some(Ok(a)) => {
                    let want: Vec<String> = ever.iter().map(|c| col_name(v, c)).collect();
                    if a.colnames != want {
                        self.fail("C13", step, "select-star", format!("{}: columns {:?}, expected {:?}", sql, a.colnames, want));
                        return false;
                    }
                    let mixed: Vec<bool> = ever.iter().map(|c| is_mixed(col_type(v, c))).collect();
                    let expected = expected_rows(b, v, t, reqs, &ever);
                    if let Err(e) = compare_rows(&expected, &a.rows, &mixed) {
                        self.fail(prop, step, "content", format!("{}: {}", sql, e));
                        return false;
                    }
                }
            }
        }
        // catalogue tables
        for (t, reqs) in post.iter().filter(|(t, _)| !is_user_table(t)) {
            let mut want = names_in(b, t, reqs);
            if t != "_meta_tables" {
                // names of the column catalogue are pool names: concretise
                want = want.iter().map(|n| col_name(v, n)).collect();
                want.sort();
            }
            let col = if t == "_meta_tables" { "name" } else { "column_name" };
            let sql = format!("SELECT {} FROM {}", col, quote(t));
            match self.answer(db, &sql, step) {
                None => return false,
                Some(Err(e)) => {
                    if !want.is_empty() {
                        self.fail("C13", step, "catalogue", format!("{} failed: {}", sql, e));
                        return false;
                    }
                }
                Some(Ok(a)) => {
                    let mut got: Vec<String> = a
                        .rows
                        .iter()
                        .map(|r| match &r[0] {
                            Cell::Str(s) => s.clone(),
                            c => format!("<{}>", c.short()),
                        })
                        .collect();
                    got.sort();
                    if got != want {
                        self.fail("C13", step, "catalogue", format!("{}: {:?}, expected {:?}", sql, got, want));
                        return false;
                    }
                }
            }
        }
        if op == "flush" && self.check_files {
            if let Err(e) = check_quiescent_files(db, dir) {
                self.fail("C18", step, "files", e);
                return false;
            }
        }
        true
    }

    pub fn run(&mut self, dir: &Path) {
        let b = self.b;
        let mut db = match db::open(Some(dir), &self.cfg) {
            Outcome::Done(d) => d,
            o => {
                self.fail("C11", 0, "open", o.describe());
                return;
            }
        };
        for (step, op) in b.ops.iter().enumerate() {
            self.steps_run += 1;
            let out: Outcome<()> = match &op.op[..] {
                "ingest" => {
                    let tables = build_request(self.variant, op.req, &b.req_def[op.req - 1]);
                    db::ingest(&db, event_buffer(&tables))
                }
                "flush" => db::flush(&db),
                "evict" => match db::evict(&db) {
                    Outcome::Done(_) => Outcome::Done(()),
                    Outcome::Panicked(m) => Outcome::Panicked(m),
                    Outcome::TimedOut => Outcome::TimedOut,
                },
                "restart" => {
                    drop(db);
                    match db::open(Some(dir), &self.cfg) {
                        Outcome::Done(d) => {
                            db = d;
                            Outcome::Done(())
                        }
                        Outcome::Panicked(m) => {
                            self.fail("C08", step, "reopen", format!("panic: {}", m));
                            return;
                        }
                        Outcome::TimedOut => {
                            self.fail("C08", step, "reopen", "opening the database did not terminate".to_string());
                            return;
                        }
                    }
                }
                other => panic!("unknown op {}", other),
            };
            if !matches!(out, Outcome::Done(())) {
                let prop = if op.op == "flush" { "C07" } else { "C11" };
                self.fail(prop, step, "op-completes", format!("{} -> {}", op.op, out.describe()));
                std::mem::forget(db);
                return;
            }
            if !self.verify(&db, dir, step) {
                if self.violations.iter().any(|v| v.oracle == "query-completes") {
                    std::mem::forget(db);
                }
                return;
            }
        }
    }
}

/// C18: after a completed flush with nothing else running the directory holds exactly the
/// catalogue file and the partition files the catalogue names; accounted log size is zero.
pub fn check_quiescent_files(db: &Arc<LocustDB>, dir: &Path) -> Result<(), String> {
    let st = db.verif_state();
    let mut want: BTreeSet<String> = BTreeSet::new();
    let parts = st["ms"]["parts"].as_array().cloned().unwrap_or_default();
    if !parts.is_empty() || dir.join("meta").exists() {
        want.insert("meta".to_string());
    }
    for p in &parts {
        let t = p["table"].as_str().unwrap();
        let id = p["id"].as_u64().unwrap();
        for s in p["subs"].as_array().unwrap() {
            want.insert(format!(
                "tables/{}/{}",
                locustdb::verif_api::sanitize_table_name(t),
                locustdb::verif_api::partition_filename(id, s["key"].as_str().unwrap())
            ));
        }
    }
    let got: BTreeSet<String> = list_files(dir).into_iter().collect();
    if got != want {
        let extra: Vec<&String> = got.difference(&want).collect();
        let missing: Vec<&String> = want.difference(&got).collect();
        return Err(format!("directory differs from catalogue: unexpected files {:?}, missing files {:?}", extra, missing));
    }
    if st["wal_size"].as_i64() != Some(0) {
        return Err(format!("accounted log size is {} after a completed flush", st["wal_size"]));
    }
    let (e, n) = (st["ms"]["earliest"].as_u64(), st["ms"]["next_wal"].as_u64());
    if e != n {
        return Err(format!("unflushed log range {:?}..{:?} is not empty after a completed flush", e, n));
    }
    Ok(())
}

pub fn replay_one(b: &Behaviour, variant: usize, cfg: &Cfg, check_files: bool) -> Value {
    let dir = tempfile::tempdir().expect("tempdir");
    let mut r = Replay {
        b,
        variant,
        cfg: cfg.clone(),
        violations: vec![],
        steps_run: 0,
        queries_run: 0,
        check_files,
    };
    crate::util::take_panics();
    r.run(dir.path());
    let panics = crate::util::take_panics();
    json!({
        "panics": panics,
        "variant": variant,
        "steps_run": r.steps_run,
        "queries_run": r.queries_run,
        "violations": r.violations,
    })
}
