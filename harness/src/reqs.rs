//! C11: request histories (valid and failing requests from 1..k client threads) against a database
//! with 1..k worker threads. Every call must return within the deadline, a failing request must
//! return an error value, and a canary (query + tiny ingest, every third step a force_flush) must be
//! served after every request.
use std::sync::{Arc, Mutex};
use std::thread;

use locustdb::LocustDB;
use serde::Deserialize;
use serde_json::{json, Value};

use crate::cells::Cell;
use crate::db::{self, Cfg};
use crate::evbuf::{event_buffer, ColData, TableData};
use crate::util::{block_on, deadline, with_deadline, Outcome};

#[derive(Debug, Clone, Deserialize)]
pub struct ReqHist {
    pub clients: Vec<Vec<String>>,
}

/// (sql, must_fail): must_fail = Some(true) the request has to return Err; Some(false) it has to return Ok
pub fn sql_of(class: &str) -> Option<(&'static str, Option<bool>)> {
    Some(match class {
        "Q_OK" => ("SELECT a, s FROM t WHERE a > 1", Some(false)),
        "Q_AGG" => ("SELECT s, COUNT(1), SUM(a) FROM t", Some(false)),
        "E_PARSE" => ("SELEC a FRM t", Some(true)),
        "E_TABLE" => ("SELECT a FROM no_such_table", Some(true)),
        "E_TYPE" => ("SELECT a FROM t WHERE s > 1", None),
        "E_OVERFLOW" => ("SELECT a * 9223372036854775807 FROM t", Some(true)),
        "E_UNSUP" => ("SELECT a FROM t GROUP BY a", None),
        "E_DIV0" => ("SELECT a / 0 FROM t", Some(true)),
        "E_OFFSET" => ("SELECT a FROM t LIMIT 1 OFFSET 100", Some(false)),
        "E_AVGF" => ("SELECT AVG(f) FROM t", None),
        "E_LIMITF" => ("SELECT a FROM t LIMIT 1.5", Some(true)),
        "E_NOTNULL" => ("SELECT a FROM t WHERE NOT (n > 1)", None),
        "E_JOIN" => ("SELECT a FROM t JOIN u ON t.a = u.a", Some(true)),
        "E_SUMSTR" => ("SELECT SUM(s) FROM t", None),
        _ => return None,
    })
}

fn base_rows(seq: i64, n: usize) -> Vec<TableData> {
    vec![TableData {
        name: "t".into(),
        len: n as u64,
        cols: vec![
            ("a".into(), ColData::I64((0..n as i64).map(|i| seq * 10 + i).collect())),
            ("f".into(), ColData::Dense((0..n).map(|i| i as f64 + 0.5).collect())),
            ("s".into(), ColData::Str((0..n).map(|i| format!("s{}", i % 2)).collect())),
            ("n".into(), ColData::SparseI64(vec![(0, 5)])),
        ],
    }]
}

fn canary(db: &Arc<LocustDB>, step: usize, counter: &Mutex<i64>) -> Result<(), String> {
    let mut c = counter.lock().unwrap();
    match db::query(db, "SELECT COUNT(1) FROM canary") {
        Outcome::Done(Ok(a)) => {
            if a.rows != vec![vec![Cell::Int(*c)]] {
                return Err(format!("canary count {:?}, expected {}", a.rows, *c));
            }
        }
        Outcome::Done(Err(e)) if *c == 0 && e.contains("does not exist") => {}
        o => return Err(format!("canary query: {:?}", o.describe())),
    }
    let one = vec![TableData { name: "canary".into(), len: 1, cols: vec![("x".into(), ColData::I64(vec![*c]))] }];
    match db::ingest(db, event_buffer(&one)) {
        Outcome::Done(()) => *c += 1,
        o => return Err(format!("canary ingest: {}", o.describe())),
    }
    if step % 3 == 2 {
        match db::flush(db) {
            Outcome::Done(()) => {}
            o => return Err(format!("canary force_flush: {}", o.describe())),
        }
    }
    Ok(())
}

pub fn run(h: &ReqHist, cfg: &Cfg) -> Value {
    let dir = tempfile::tempdir().expect("tempdir");
    crate::util::take_panics();
    let db = match db::open(Some(dir.path()), cfg) {
        Outcome::Done(d) => d,
        o => return json!({"violations": [{"prop": "C11", "oracle": "open", "what": o.describe()}]}),
    };
    let _ = db::ingest(&db, event_buffer(&base_rows(1, 3)));
    let _ = db::flush(&db);
    let _ = db::ingest(&db, event_buffer(&base_rows(2, 2)));
    let _ = db::flush(&db);
    let _ = db::ingest(&db, event_buffer(&base_rows(3, 2)));
    let violations: Arc<Mutex<Vec<Value>>> = Arc::new(Mutex::new(vec![]));
    let counter = Arc::new(Mutex::new(0i64));
    let calls = Arc::new(Mutex::new(0usize));
    let mut handles = vec![];
    for (ci, reqs) in h.clients.iter().enumerate() {
        if reqs.is_empty() {
            continue;
        }
        let (db, reqs, violations, counter, calls) = (db.clone(), reqs.clone(), violations.clone(), counter.clone(), calls.clone());
        handles.push(thread::spawn(move || {
            for (step, class) in reqs.iter().enumerate() {
                *calls.lock().unwrap() += 1;
                let fail = |oracle: &str, what: String| {
                    violations.lock().unwrap().push(json!({"prop": "C11", "oracle": oracle, "client": ci, "step": step, "op": class, "what": what}));
                };
                let ok = match &class[..] {
                    "INGEST" => match db::ingest(&db, event_buffer(&base_rows(10 + (ci * 10 + step) as i64, 2))) {
                        Outcome::Done(()) => true,
                        o => {
                            fail("op-completes", format!("ingest -> {}", o.describe()));
                            false
                        }
                    },
                    "FLUSH" => match db::flush(&db) {
                        Outcome::Done(()) => true,
                        o => {
                            fail("op-completes", format!("force_flush -> {}", o.describe()));
                            false
                        }
                    },
                    "STATS" => {
                        let dbc = db.clone();
                        match with_deadline(deadline(), move || block_on(dbc.table_stats()).map(|v| v.len())) {
                            Outcome::Done(Ok(_)) => true,
                            o => {
                                fail("op-completes", format!("table_stats -> {:?}", o.describe()));
                                false
                            }
                        }
                    }
                    c => {
                        let (sql, must_fail) = sql_of(c).expect("request class");
                        match db::query(&db, sql) {
                            Outcome::Done(r) => {
                                match (must_fail, &r) {
                                    (Some(true), Ok(a)) => fail("error-value", format!("{} returned a result with {} rows instead of an error", sql, a.rows.len())),
                                    (Some(false), Err(e)) => fail("error-value", format!("{} failed: {}", sql, e)),
                                    _ => {}
                                }
                                if let Ok(a) = &r {
                                    if let Err(e) = db::views_agree(a) {
                                        fail("well-formed", format!("{}: {}", sql, e));
                                    }
                                }
                                true
                            }
                            o => {
                                fail("op-completes", format!("{} -> {}", sql, o.describe()));
                                false
                            }
                        }
                    }
                };
                if !ok {
                    return;
                }
                if crate::util::panic_count() > 0 {
                    fail("thread-panicked", format!("a thread of the database panicked while serving {}", class));
                    return;
                }
                if let Err(e) = canary(&db, step, &counter) {
                    fail("canary", format!("after {}: {}", class, e));
                    return;
                }
            }
        }));
    }
    for hd in handles {
        let _ = hd.join();
    }
    let v = violations.lock().unwrap().clone();
    if !v.is_empty() {
        std::mem::forget(db);
    }
    let n = *calls.lock().unwrap();
    json!({"calls": n, "violations": v, "panics": crate::util::take_panics()})
}
