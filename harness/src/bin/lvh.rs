use std::io::{BufRead, Write};

use lvh::db::Cfg;
use lvh::hist;
use serde_json::{json, Value};

fn arg(args: &[String], name: &str) -> Option<String> {
    args.iter().position(|a| a == name).and_then(|i| args.get(i + 1).cloned())
}

fn cfg_from_args(args: &[String]) -> Cfg {
    let mut cfg = Cfg::default();
    if let Some(v) = arg(args, "--combine") {
        cfg.combine_factor = v.parse().unwrap();
    }
    if let Some(v) = arg(args, "--part-bytes") {
        cfg.max_partition_size_bytes = v.parse().unwrap();
    }
    if let Some(v) = arg(args, "--io-threads") {
        cfg.io_threads = v.parse().unwrap();
    }
    if let Some(v) = arg(args, "--threads") {
        cfg.threads = v.parse().unwrap();
    }
    if let Some(v) = arg(args, "--compaction-threads") {
        cfg.wal_flush_compaction_threads = v.parse().unwrap();
    }
    if let Some(v) = arg(args, "--lz4") {
        cfg.mem_lz4 = v == "1";
    }
    if let Some(v) = arg(args, "--batch-size") {
        cfg.batch_size = v.parse().unwrap();
    }
    cfg
}

/// replay-hist --in <ndjson> --out <ndjson> [--shard i --of n] [--variants k] [--combine f] ...
fn replay_hist(args: &[String]) {
    let input = arg(args, "--in").expect("--in");
    let output = arg(args, "--out").expect("--out");
    let shard: usize = arg(args, "--shard").map(|s| s.parse().unwrap()).unwrap_or(0);
    let of: usize = arg(args, "--of").map(|s| s.parse().unwrap()).unwrap_or(1);
    let variants: Vec<usize> = arg(args, "--variants")
        .map(|s| s.split(',').map(|x| x.parse().unwrap()).collect())
        .unwrap_or_else(|| vec![0]);
    let skip: usize = arg(args, "--skip").map(|s| s.parse().unwrap()).unwrap_or(0);
    let cfg = cfg_from_args(args);
    let check_files = arg(args, "--check-files").map(|s| s == "1").unwrap_or(true);
    let f = std::io::BufReader::new(std::fs::File::open(&input).expect("open input"));
    let mut out = std::fs::OpenOptions::new().create(true).append(true).open(&output).expect("open output");
    for (i, line) in f.lines().enumerate() {
        let line = line.unwrap();
        if i % of != shard || i < skip {
            continue;
        }
        let b: hist::Behaviour = serde_json::from_str(&line).expect("behaviour json");
        // a marker first, so that a process abort is attributed to this behaviour
        writeln!(out, "{}", json!({"idx": i, "begin": true})).unwrap();
        out.flush().unwrap();
        for &v in &variants {
            // variant selection: rotate by behaviour index so that all classes meet all histories over time
            let variant = if v >= hist::KF_HEX { v } else { v + i };
            let mut res: Value = hist::replay_one(&b, variant, &cfg, check_files);
            res["idx"] = json!(i);
            writeln!(out, "{}", res).unwrap();
        }
        out.flush().unwrap();
    }
    writeln!(out, "{}", json!({"shard_done": shard})).unwrap();
}

/// replay-one --in <ndjson> --idx i --variant v [cfg flags]: one behaviour, full report on stdout
fn replay_one(args: &[String]) {
    let input = arg(args, "--in").expect("--in");
    let idx: usize = arg(args, "--idx").expect("--idx").parse().unwrap();
    let variant: usize = arg(args, "--variant").expect("--variant").parse().unwrap();
    let cfg = cfg_from_args(args);
    let f = std::io::BufReader::new(std::fs::File::open(&input).expect("open input"));
    let line = f.lines().nth(idx).expect("line").unwrap();
    let b: hist::Behaviour = serde_json::from_str(&line).expect("behaviour json");
    println!("{}", line);
    let res = hist::replay_one(&b, variant, &cfg, true);
    println!("{}", serde_json::to_string_pretty(&res).unwrap());
}

/// crashimg --in <ndjson> --out <ndjson> [--shard i --of n] [--variants ..]: B3 crash images
fn crashimg(args: &[String]) {
    let input = arg(args, "--in").expect("--in");
    let output = arg(args, "--out").expect("--out");
    let shard: usize = arg(args, "--shard").map(|s| s.parse().unwrap()).unwrap_or(0);
    let of: usize = arg(args, "--of").map(|s| s.parse().unwrap()).unwrap_or(1);
    let skip: usize = arg(args, "--skip").map(|s| s.parse().unwrap()).unwrap_or(0);
    let variants: Vec<usize> = arg(args, "--variants")
        .map(|s| s.split(',').map(|x| x.parse().unwrap()).collect())
        .unwrap_or_else(|| vec![0]);
    let cfg = cfg_from_args(args);
    let f = std::io::BufReader::new(std::fs::File::open(&input).expect("open input"));
    let mut out = std::fs::OpenOptions::new().create(true).append(true).open(&output).expect("open output");
    for (i, line) in f.lines().enumerate() {
        let line = line.unwrap();
        if i % of != shard || i < skip {
            continue;
        }
        let b: hist::Behaviour = serde_json::from_str(&line).expect("behaviour json");
        writeln!(out, "{}", json!({"idx": i, "begin": true})).unwrap();
        out.flush().unwrap();
        for &v in &variants {
            let variant = v + i;
            let deep: usize = arg(args, "--deep-every").map(|s| s.parse().unwrap()).unwrap_or(7);
            let rep = lvh::crash::run(&b, variant, &cfg, deep);
            writeln!(out, "{}", json!({"idx": i, "variant": variant, "images": rep.images, "depth2_images": rep.depth2_images,
                "inside_op_images": rep.inside_op_images, "effects": rep.effects, "violations": rep.violations})).unwrap();
        }
        out.flush().unwrap();
    }
    writeln!(out, "{}", json!({"shard_done": shard})).unwrap();
}

/// record-hist --in <ndjson> --out <raw trace ndjson> [--shard i --of n] [--variants ..] [cfg]:
/// replays behaviours with the tracer installed; runs are separated by Reset events
fn record_hist(args: &[String]) {
    let input = arg(args, "--in").expect("--in");
    let output = arg(args, "--out").expect("--out");
    let shard: usize = arg(args, "--shard").map(|s| s.parse().unwrap()).unwrap_or(0);
    let of: usize = arg(args, "--of").map(|s| s.parse().unwrap()).unwrap_or(1);
    let variants: Vec<usize> = arg(args, "--variants")
        .map(|s| s.split(',').map(|x| x.parse().unwrap()).collect())
        .unwrap_or_else(|| vec![0]);
    let cfg = cfg_from_args(args);
    let f = std::io::BufReader::new(std::fs::File::open(&input).expect("open input"));
    let mut out = std::fs::File::create(&output).expect("open output");
    let mut res = std::fs::File::create(format!("{}.results", output)).expect("open results");
    locustdb::verif::install_tracer();
    for (i, line) in f.lines().enumerate() {
        let line = line.unwrap();
        if i % of != shard {
            continue;
        }
        let b: hist::Behaviour = serde_json::from_str(&line).expect("behaviour json");
        for &v in &variants {
            locustdb::verif::take_trace();
            let mut r = hist::replay_one(&b, v + i, &cfg, true);
            // the instance has been dropped; wait until none of its threads can emit any more
            if args.iter().any(|a| a == "--wait-stop") {
                locustdb::verif::wait_all_stopped(std::time::Duration::from_secs(5));
            }
            let trace = locustdb::verif::take_trace();
            writeln!(out, "{}", json!({"ev": "Reset", "idx": i})).unwrap();
            for l in trace {
                writeln!(out, "{}", l).unwrap();
            }
            r["idx"] = json!(i);
            writeln!(res, "{}", r).unwrap();
        }
    }
}

/// record-stress --out <raw trace> --seed s [--clients k --queriers q --requests n --bg-flush --evict --restarts r] [cfg]
fn record_stress(args: &[String]) {
    let output = arg(args, "--out").expect("--out");
    let sc = lvh::stress::StressCfg {
        seed: arg(args, "--seed").map(|s| s.parse().unwrap()).unwrap_or(0),
        clients: arg(args, "--clients").map(|s| s.parse().unwrap()).unwrap_or(3),
        queriers: arg(args, "--queriers").map(|s| s.parse().unwrap()).unwrap_or(2),
        requests_per_client: arg(args, "--requests").map(|s| s.parse().unwrap()).unwrap_or(12),
        background_flush: args.iter().any(|a| a == "--bg-flush"),
        evict: args.iter().any(|a| a == "--evict"),
        restarts: arg(args, "--restarts").map(|s| s.parse().unwrap()).unwrap_or(1),
    };
    let cfg = cfg_from_args(args);
    let dir = tempfile::tempdir().expect("tempdir");
    locustdb::verif::install_tracer();
    lvh::util::take_panics();
    let mut res = lvh::stress::run(&sc, &cfg, dir.path());
    res["panics"] = json!(lvh::util::take_panics());
    let trace = locustdb::verif::take_trace();
    let mut out = std::fs::File::create(&output).expect("open output");
    for l in trace {
        writeln!(out, "{}", l).unwrap();
    }
    let mut r = std::fs::File::create(format!("{}.results", output)).expect("open results");
    writeln!(r, "{}", res).unwrap();
    println!("{}", res);
}

/// sched --out <ndjson> [--shard i --of n] [cfg]: B3 schedule replay (all placements)
fn sched(args: &[String]) {
    let output = arg(args, "--out").expect("--out");
    let shard: usize = arg(args, "--shard").map(|s| s.parse().unwrap()).unwrap_or(0);
    let of: usize = arg(args, "--of").map(|s| s.parse().unwrap()).unwrap_or(1);
    let skip: usize = arg(args, "--skip").map(|s| s.parse().unwrap()).unwrap_or(0);
    let only: Option<usize> = arg(args, "--only").map(|s| s.parse().unwrap());
    let cfg = cfg_from_args(args);
    let mut out = std::fs::OpenOptions::new().create(true).append(true).open(&output).expect("open output");
    for (i, s) in lvh::sched::all_schedules().iter().enumerate() {
        if i % of != shard || i < skip || only.map(|o| o != i).unwrap_or(false) {
            continue;
        }
        writeln!(out, "{}", json!({"idx": i, "begin": true})).unwrap();
        out.flush().unwrap();
        let mut r = lvh::sched::run(s, &cfg);
        r["idx"] = json!(i);
        writeln!(out, "{}", r).unwrap();
        out.flush().unwrap();
    }
    writeln!(out, "{}", json!({"shard_done": shard})).unwrap();
}

/// reqseq --in <ndjson> --out <ndjson> [--shard i --of n] [--threads k]: C11 request histories
fn reqseq(args: &[String]) {
    let input = arg(args, "--in").expect("--in");
    let output = arg(args, "--out").expect("--out");
    let shard: usize = arg(args, "--shard").map(|s| s.parse().unwrap()).unwrap_or(0);
    let of: usize = arg(args, "--of").map(|s| s.parse().unwrap()).unwrap_or(1);
    let skip: usize = arg(args, "--skip").map(|s| s.parse().unwrap()).unwrap_or(0);
    let cfg = cfg_from_args(args);
    let f = std::io::BufReader::new(std::fs::File::open(&input).expect("open input"));
    let mut out = std::fs::OpenOptions::new().create(true).append(true).open(&output).expect("open output");
    for (i, line) in f.lines().enumerate() {
        let line = line.unwrap();
        if i % of != shard || i < skip {
            continue;
        }
        let h: lvh::reqs::ReqHist = serde_json::from_str(&line).expect("request history json");
        writeln!(out, "{}", json!({"idx": i, "begin": true})).unwrap();
        out.flush().unwrap();
        let mut r = lvh::reqs::run(&h, &cfg);
        r["idx"] = json!(i);
        writeln!(out, "{}", r).unwrap();
        out.flush().unwrap();
    }
    writeln!(out, "{}", json!({"shard_done": shard})).unwrap();
}

/// qsem --in <emitted ndjson> --out <ndjson> --family filter|group|sort [--shard i --of n] [--classes a,b] [--layouts a,b]
/// work items = (table, class, layout) triples
fn qsem(args: &[String]) {
    use lvh::qsem;
    let input = arg(args, "--in").expect("--in");
    let output = arg(args, "--out").expect("--out");
    let shard: usize = arg(args, "--shard").map(|s| s.parse().unwrap()).unwrap_or(0);
    let of: usize = arg(args, "--of").map(|s| s.parse().unwrap()).unwrap_or(1);
    let skip: usize = arg(args, "--skip").map(|s| s.parse().unwrap()).unwrap_or(0);
    let classes: Vec<usize> = arg(args, "--classes").map(|s| s.split(',').map(|x| x.parse().unwrap()).collect()).unwrap_or_else(|| (0..qsem::NUM_CLASSES).collect());
    let all_layouts = qsem::layouts();
    let lays: Vec<usize> = arg(args, "--layouts").map(|s| s.split(',').map(|x| x.parse().unwrap()).collect()).unwrap_or_else(|| (0..all_layouts.len()).collect());
    let mut queries: Option<Value> = None;
    let mut tables: Vec<Value> = vec![];
    for line in std::io::BufReader::new(std::fs::File::open(&input).expect("open input")).lines() {
        let v: Value = serde_json::from_str(&line.unwrap()).expect("json");
        if v["kind"] == "queries" {
            queries = Some(v);
        } else {
            tables.push(v);
        }
    }
    tables.sort_by_key(|t| t["idx"].as_i64().unwrap());
    let q = queries.expect("queries line");
    let family = q["family"].as_str().unwrap().to_string();
    let mut out = std::fs::OpenOptions::new().create(true).append(true).open(&output).expect("open output");
    let mut item = 0usize;
    for t in &tables {
        for &c in &classes {
            for &l in &lays {
                let i = item;
                item += 1;
                if i % of != shard || i < skip {
                    continue;
                }
                writeln!(out, "{}", json!({"idx": i, "begin": true})).unwrap();
                out.flush().unwrap();
                let rows = t["rows"].as_array().unwrap();
                let lay = &all_layouts[l];
                lvh::util::take_panics();
                let mut vio: Vec<Value> = vec![];
                let (mut n, mut nt) = (0, 0);
                match qsem::build(rows, c, lay) {
                    Err(e) => vio.push(json!({"prop": "C01", "oracle": "build", "what": e})),
                    Ok(b) => {
                        // all queries of this database under one deadline; a hang is attributed to the query in flight
                        let (qq, tt, fam, rowsv) = (q.clone(), t.clone(), family.clone(), rows.clone());
                        let (rows2, lay2) = (rows.clone(), lay.clone());
                        let mut b = b;
                        let out = lvh::util::with_plain_deadline(std::time::Duration::from_secs(900), move || {
                            let mut vio: Vec<Value> = vec![];
                            let r = match &fam[..] {
                                "filter" => qsem::check_filters(&b, c, qq["preds"].as_array().unwrap(), tt["filters"].as_array().unwrap(), tt["filters_dev_or"].as_array().unwrap(), rowsv.len(), &mut vio),
                                "group" => qsem::check_groups(&mut b, &|| qsem::build(&rows2, c, &lay2), c, qq["gqueries"].as_array().unwrap(), tt["groups"].as_array().unwrap(), &mut vio),
                                _ => {
                                    let lims: Vec<i64> = qq["limits"].as_array().unwrap().iter().map(|x| x.as_i64().unwrap()).collect();
                                    let offs: Vec<i64> = qq["offsets"].as_array().unwrap().iter().map(|x| x.as_i64().unwrap()).collect();
                                    qsem::check_sorts(&b, c, qq["squeries"].as_array().unwrap(), &lims, &offs, tt["sorts"].as_array().unwrap(), &rowsv, &mut vio)
                                }
                            };
                            if !vio.is_empty() {
                                qsem::discard(b);
                            }
                            (r, vio)
                        });
                        match out {
                            lvh::util::Outcome::Done((r, v)) => {
                                n = r.0;
                                nt = r.1;
                                vio = v;
                            }
                            o => {
                                let sql = qsem::CURRENT_SQL.lock().map(|s| s.clone()).unwrap_or_default();
                                vio.push(json!({"prop": "C11", "oracle": "batch-deadline", "sql": sql, "what": format!("the batch of queries did not complete within its deadline: {}", o.describe())}));
                            }
                        }
                    }
                }
                writeln!(out, "{}", json!({"idx": i, "table": t["idx"], "class": c, "layout": lay.name, "layout_idx": l, "queries": n, "nontrivial": nt,
                    "violations": vio, "panics": lvh::util::take_panics()})).unwrap();
                out.flush().unwrap();
            }
        }
    }
    writeln!(out, "{}", json!({"shard_done": shard})).unwrap();
}

/// c01 --in <ndjson> --out <ndjson> [--shard i --of n] [--seed s] [--variants k]: ColumnBuffer.tla behaviours
fn c01(args: &[String]) {
    let input = arg(args, "--in").expect("--in");
    let output = arg(args, "--out").expect("--out");
    let shard: usize = arg(args, "--shard").map(|s| s.parse().unwrap()).unwrap_or(0);
    let of: usize = arg(args, "--of").map(|s| s.parse().unwrap()).unwrap_or(1);
    let skip: usize = arg(args, "--skip").map(|s| s.parse().unwrap()).unwrap_or(0);
    let seed: usize = arg(args, "--seed").map(|s| s.parse().unwrap()).unwrap_or(0);
    let variants: usize = arg(args, "--variants").map(|s| s.parse().unwrap()).unwrap_or(2);
    let f = std::io::BufReader::new(std::fs::File::open(&input).expect("open input"));
    let mut out = std::fs::OpenOptions::new().create(true).append(true).open(&output).expect("open output");
    for (i, line) in f.lines().enumerate() {
        let line = line.unwrap();
        if i % of != shard || i < skip {
            continue;
        }
        let b: lvh::c01::Behaviour = serde_json::from_str(&line).expect("behaviour json");
        writeln!(out, "{}", json!({"idx": i, "begin": true})).unwrap();
        out.flush().unwrap();
        for v in 0..variants {
            let k = i * 7 + v * 13 + seed;
            let class = k % lvh::c01::NUM_CLASSES;
            let rep = lvh::c01::REPS[(k / 3) % lvh::c01::REPS.len()];
            let path = if (k / 5) % 3 == 0 { "rows" } else { "wire" };
            let layout = (k / 2) % 4;
            let mut r = lvh::c01::run(&b, class, rep, path, layout);
            r["idx"] = json!(i);
            writeln!(out, "{}", r).unwrap();
        }
        out.flush().unwrap();
    }
    writeln!(out, "{}", json!({"shard_done": shard})).unwrap();
}

/// arith --in <ndjson> --out <ndjson> [--shard i --of n] [--seed s] [--sums]: C06
fn arith(args: &[String]) {
    let input = arg(args, "--in").expect("--in");
    let output = arg(args, "--out").expect("--out");
    let shard: usize = arg(args, "--shard").map(|s| s.parse().unwrap()).unwrap_or(0);
    let of: usize = arg(args, "--of").map(|s| s.parse().unwrap()).unwrap_or(1);
    let seed: usize = arg(args, "--seed").map(|s| s.parse().unwrap()).unwrap_or(0);
    let only: Option<usize> = arg(args, "--only").map(|s| s.parse().unwrap());
    let mut meta: Option<Value> = None;
    let mut rows: Vec<Value> = vec![];
    for line in std::io::BufReader::new(std::fs::File::open(&input).expect("open input")).lines() {
        let v: Value = serde_json::from_str(&line.unwrap()).expect("json");
        if v["kind"] == "meta" {
            meta = Some(v);
        } else {
            rows.push(v);
        }
    }
    let meta = meta.expect("meta line");
    let mut out = std::fs::OpenOptions::new().create(true).append(true).open(&output).expect("open output");
    if args.iter().any(|a| a == "--sums") {
        if shard == 0 {
            writeln!(out, "{}", json!({"idx": 0, "begin": true})).unwrap();
            let mut r = lvh::arith::run_sums(&meta, seed);
            r["idx"] = json!(0);
            r["sums"] = json!(true);
            writeln!(out, "{}", r).unwrap();
        }
    } else {
        for (i, row) in rows.iter().enumerate() {
            if i % of != shard {
                continue;
            }
            writeln!(out, "{}", json!({"idx": i, "begin": true})).unwrap();
            out.flush().unwrap();
            let mut r = lvh::arith::run(&meta, std::slice::from_ref(row), seed, only);
            r["idx"] = json!(i);
            r["row"] = row["idx"].clone();
            writeln!(out, "{}", r).unwrap();
            out.flush().unwrap();
        }
    }
    writeln!(out, "{}", json!({"shard_done": shard})).unwrap();
}

/// sqlc --in <json line file> --out <ndjson> [--shard i --of n]: C12
fn sqlc(args: &[String]) {
    let input = arg(args, "--in").expect("--in");
    let output = arg(args, "--out").expect("--out");
    let shard: usize = arg(args, "--shard").map(|s| s.parse().unwrap()).unwrap_or(0);
    let of: usize = arg(args, "--of").map(|s| s.parse().unwrap()).unwrap_or(1);
    let mut out = std::fs::OpenOptions::new().create(true).append(true).open(&output).expect("open output");
    let mut item = 0;
    for line in std::io::BufReader::new(std::fs::File::open(&input).expect("open input")).lines() {
        let v: Value = serde_json::from_str(&line.unwrap()).expect("json");
        let kind = v["kind"].as_str().unwrap().to_string();
        for state in 0..2 {
            writeln!(out, "{}", json!({"idx": item, "begin": true})).unwrap();
            out.flush().unwrap();
            let mut r = lvh::sqlc::run(&kind, v["stmts"].as_array().unwrap(), state, shard, of, true);
            r["idx"] = json!(item);
            writeln!(out, "{}", r).unwrap();
            out.flush().unwrap();
            item += 1;
        }
    }
    writeln!(out, "{}", json!({"shard_done": shard})).unwrap();
}

/// c15 --in <ndjson> --out <ndjson> [--shard i --of n] [--e2e-every k]
fn c15(args: &[String]) {
    let input = arg(args, "--in").expect("--in");
    let output = arg(args, "--out").expect("--out");
    let shard: usize = arg(args, "--shard").map(|s| s.parse().unwrap()).unwrap_or(0);
    let of: usize = arg(args, "--of").map(|s| s.parse().unwrap()).unwrap_or(1);
    let every: usize = arg(args, "--e2e-every").map(|s| s.parse().unwrap()).unwrap_or(40);
    let only: Option<usize> = arg(args, "--only").map(|s| s.parse().unwrap());
    let f = std::io::BufReader::new(std::fs::File::open(&input).expect("open input"));
    let mut out = std::fs::OpenOptions::new().create(true).append(true).open(&output).expect("open output");
    let tnames = lvh::c15::table_names();
    let (mut units, mut e2e) = (0usize, 0usize);
    let mut vio: Vec<Value> = vec![];
    if shard == 0 && only.is_none() {
        vio.extend(lvh::c15::sanitize_checks());
    }
    writeln!(out, "{}", json!({"idx": 0, "begin": true})).unwrap();
    for (i, line) in f.lines().enumerate() {
        let line = line.unwrap();
        if i % of != shard || only.map(|o| o != i).unwrap_or(false) {
            continue;
        }
        let c: lvh::c15::Case = serde_json::from_str(&line).expect("case json");
        units += 1;
        for mut v in lvh::c15::unit(&c) {
            v["case"] = json!(i);
            vio.push(v);
        }
        if i % every == 0 || only.is_some() {
            e2e += 1;
            lvh::util::take_panics();
            for mut v in lvh::c15::end_to_end(&c, &tnames[(i / every) % tnames.len()]) {
                v["case"] = json!(i);
                v["table"] = json!(tnames[(i / every) % tnames.len()]);
                v["panics"] = json!(lvh::util::take_panics());
                vio.push(v);
            }
        }
        if vio.len() > 100 {
            break;
        }
    }
    writeln!(out, "{}", json!({"idx": 0, "units": units, "e2e": e2e, "violations": vio})).unwrap();
    writeln!(out, "{}", json!({"shard_done": shard})).unwrap();
}

/// c16 --mode wire|ints|floats --in <ndjson> --out <ndjson> [--shard i --of n] [--only k] [--all-mantissas]
fn c16(args: &[String]) {
    let mode = arg(args, "--mode").expect("--mode");
    let input = arg(args, "--in").expect("--in");
    let output = arg(args, "--out").expect("--out");
    let shard: usize = arg(args, "--shard").map(|s| s.parse().unwrap()).unwrap_or(0);
    let of: usize = arg(args, "--of").map(|s| s.parse().unwrap()).unwrap_or(1);
    let only: Option<usize> = arg(args, "--only").map(|s| s.parse().unwrap());
    let all_m = args.iter().any(|a| a == "--all-mantissas");
    let f = std::io::BufReader::new(std::fs::File::open(&input).expect("open input"));
    let mut out = std::fs::OpenOptions::new().create(true).append(true).open(&output).expect("open output");
    let mut vio: Vec<Value> = vec![];
    let mut units = 0usize;
    let mut evals = 0usize;
    let mut st = lvh::c16::IntStats { sequences: 0, layouts: Default::default(), layout_differs: 0 };
    writeln!(out, "{}", json!({"idx": 0, "begin": true})).unwrap();
    let dbh = if mode == "wire" {
        match lvh::db::open(None, &lvh::db::Cfg::default()) {
            lvh::util::Outcome::Done(d) => Some(d),
            o => {
                vio.push(json!({"oracle": "machinery", "what": format!("cannot open database: {}", o.describe())}));
                None
            }
        }
    } else {
        None
    };
    let mut dbh = dbh;
    if shard == 0 && only.is_none() {
        if mode == "ints" {
            for xs in lvh::c16::int_extremes() {
                if let Some(mut v) = lvh::c16::int_round_trip(&xs, &mut st) {
                    v["case"] = json!(-1);
                    vio.push(v);
                }
            }
        }
        if mode == "floats" {
            vio.extend(lvh::c16::response_family());
        }
    }
    let mantissas: Vec<Option<u32>> = if all_m {
        std::iter::once(None).chain((0..=52).map(Some)).collect()
    } else {
        vec![None, Some(0), Some(1), Some(7), Some(23), Some(51), Some(52)]
    };
    for (i, line) in f.lines().enumerate() {
        let line = line.unwrap();
        if i % of != shard || only.map(|o| o != i).unwrap_or(false) {
            continue;
        }
        units += 1;
        let before = vio.len();
        match mode.as_str() {
            "wire" => {
                let c: lvh::c16::WireCase = serde_json::from_str(&line).expect("case json");
                let vs = lvh::c16::wire_case(&c, i, dbh.as_ref());
                if vs.iter().any(|v| v.get("fatal").is_some()) {
                    // the database may be unusable after a panic or a hang inside it: continue on a fresh one
                    dbh = lvh::db::open(None, &lvh::db::Cfg::default()).done();
                }
                vio.extend(vs);
            }
            "ints" => {
                let v: Value = serde_json::from_str(&line).expect("json");
                let scaled: Vec<i64> = v["xs"].as_array().unwrap().iter().map(|x| x.as_i64().unwrap()).collect();
                for xs in lvh::c16::int_sequences(&scaled) {
                    if let Some(v) = lvh::c16::int_round_trip(&xs, &mut st) {
                        vio.push(v);
                    }
                }
            }
            "xor" => {
                let v: Value = serde_json::from_str(&line).expect("json");
                vio.extend(lvh::c16::xor_case(&v, &mut evals, &mut st.layout_differs));
            }
            "floats" => {
                let v: Value = serde_json::from_str(&line).expect("json");
                let cl: Vec<usize> = v["fs"].as_array().unwrap().iter().map(|x| x.as_u64().unwrap() as usize).collect();
                vio.extend(lvh::c16::floats_case(&cl, &mantissas, &mut evals));
            }
            _ => panic!("mode"),
        }
        for v in vio[before..].iter_mut() {
            v["case"] = json!(i);
            v["panics"] = json!(lvh::util::take_panics());
        }
        if vio.len() > 200 {
            break;
        }
    }
    writeln!(out, "{}", json!({"idx": 0, "units": units, "evals": evals, "sequences": st.sequences, "layouts": st.layouts, "layout_differs": st.layout_differs, "violations": vio})).unwrap();
    writeln!(out, "{}", json!({"shard_done": shard})).unwrap();
}

/// c17 --mode replay --in <ndjson> --out <ndjson> [--shard i --of n] [--only k]
/// c17 --mode stress --out <ndjson> --trace <ndjson> [--runs n] [--clients c] [--reqs r] [--seed s]
fn c17(args: &[String]) {
    let mode = arg(args, "--mode").expect("--mode");
    let output = arg(args, "--out").expect("--out");
    let mut out = std::fs::OpenOptions::new().create(true).append(true).open(&output).expect("open output");
    writeln!(out, "{}", json!({"idx": 0, "begin": true})).unwrap();
    let mut vio: Vec<Value> = vec![];
    if mode == "stress" {
        let trace = arg(args, "--trace").expect("--trace");
        let runs: usize = arg(args, "--runs").map(|s| s.parse().unwrap()).unwrap_or(4);
        let clients: usize = arg(args, "--clients").map(|s| s.parse().unwrap()).unwrap_or(3);
        let reqs: usize = arg(args, "--reqs").map(|s| s.parse().unwrap()).unwrap_or(6);
        let seed: u64 = arg(args, "--seed").map(|s| s.parse().unwrap()).unwrap_or(0);
        let mut tf = std::fs::File::create(&trace).expect("trace file");
        let mut events = 0usize;
        for r in 0..runs {
            let s = match lvh::c17::Server::start() {
                Ok(s) => s,
                Err(e) => {
                    vio.push(json!({"oracle": "machinery", "what": e}));
                    break;
                }
            };
            writeln!(tf, "{}", json!({"ev": "reset", "c": "", "kind": "", "ep": "", "outcome": "", "status": 0, "snap": 0})).unwrap();
            // the table exists before the concurrent phase starts
            let a = s.rt.block_on(lvh::c17::post_bytes(&s.client, s.url("/insert_bin"), lvh::c17::batch(1_000_000 + r)));
            if a.status != Some(200) {
                vio.push(json!({"oracle": "insert", "what": format!("first insert: {:?} {}", a.status, a.err)}));
            }
            let (ev, v) = lvh::c17::stress(&s, clients, reqs, seed + r as u64);
            for e in &ev {
                // every record carries every field (TLC's records are typed by their field sets)
                let mut e = e.clone();
                for (k, d) in [("ep", json!("")), ("outcome", json!("")), ("status", json!(0)), ("snap", json!(-1))] {
                    if e.get(k).is_none() {
                        e[k] = d;
                    }
                }
                writeln!(tf, "{}", e).unwrap();
            }
            events += ev.len();
            for mut x in v {
                x["run"] = json!(r);
                vio.push(x);
            }
            s.stop();
        }
        writeln!(out, "{}", json!({"idx": 0, "units": runs, "events": events, "violations": vio, "panics": lvh::util::take_panics()})).unwrap();
        writeln!(out, "{}", json!({"shard_done": 0})).unwrap();
        return;
    }
    let input = arg(args, "--in").expect("--in");
    let shard: usize = arg(args, "--shard").map(|s| s.parse().unwrap()).unwrap_or(0);
    let of: usize = arg(args, "--of").map(|s| s.parse().unwrap()).unwrap_or(1);
    let only: Option<usize> = arg(args, "--only").map(|s| s.parse().unwrap());
    let f = std::io::BufReader::new(std::fs::File::open(&input).expect("open input"));
    let mut server = match lvh::c17::Server::start() {
        Ok(s) => s,
        Err(e) => {
            writeln!(out, "{}", json!({"idx": 0, "units": 0, "requests": 0, "violations": [{"oracle": "machinery", "what": e}]})).unwrap();
            writeln!(out, "{}", json!({"shard_done": shard})).unwrap();
            return;
        }
    };
    let (mut units, mut requests) = (0usize, 0usize);
    let mut next_batch = 0usize;
    let mut seen: std::collections::BTreeMap<u16, usize> = Default::default();
    for (i, line) in f.lines().enumerate() {
        let line = line.unwrap();
        if i % of != shard || only.map(|o| o != i).unwrap_or(false) {
            continue;
        }
        let v: Value = serde_json::from_str(&line).expect("json");
        let ops: Vec<lvh::c17::Op> = serde_json::from_value(v["ops"].clone()).expect("ops");
        units += 1;
        requests += ops.len();
        // a fresh database every 50 schedules (and for schedules that start with a query on a missing table)
        if units % 50 == 0 {
            server.stop();
            server = lvh::c17::Server::start().expect("restart server");
            next_batch = 0;
        }
        let vs = lvh::c17::replay(&server, &ops, i, &mut next_batch, &mut seen);
        let dead = vs.iter().any(|v| v["oracle"] == "alive");
        for mut x in vs {
            x["case"] = json!(i);
            vio.push(x);
        }
        if dead {
            server = lvh::c17::Server::start().expect("restart server");
            next_batch = 0;
        }
        if vio.len() > 100 {
            break;
        }
    }
    writeln!(out, "{}", json!({"idx": 0, "units": units, "requests": requests, "statuses": seen, "violations": vio})).unwrap();
    writeln!(out, "{}", json!({"shard_done": shard})).unwrap();
}

/// c14 --out <ndjson> [--all-bits] [--no-db]
fn c14(args: &[String]) {
    let output = arg(args, "--out").expect("--out");
    let mut out = std::fs::OpenOptions::new().create(true).append(true).open(&output).expect("open output");
    writeln!(out, "{}", json!({"idx": 0, "begin": true})).unwrap();
    let mut r = lvh::c14::run(args.iter().any(|a| a == "--all-bits"), !args.iter().any(|a| a == "--no-db"));
    r["idx"] = json!(0);
    writeln!(out, "{}", r).unwrap();
    let mut r2 = lvh::c14::roundtrips();
    r2["idx"] = json!(1);
    writeln!(out, "{}", r2).unwrap();
    writeln!(out, "{}", json!({"shard_done": 0})).unwrap();
}

fn main() {
    lvh::util::quiet_panics();
    let args: Vec<String> = std::env::args().collect();
    match args.get(1).map(|s| &s[..]) {
        Some("replay-hist") => replay_hist(&args[2..]),
        Some("replay-one") => replay_one(&args[2..]),
        Some("crashimg") => crashimg(&args[2..]),
        Some("record-hist") => record_hist(&args[2..]),
        Some("sched") => sched(&args[2..]),
        Some("reqseq") => reqseq(&args[2..]),
        Some("qsem") => qsem(&args[2..]),
        Some("c01") => c01(&args[2..]),
        Some("arith") => arith(&args[2..]),
        Some("sqlc") => sqlc(&args[2..]),
        Some("c15") => c15(&args[2..]),
        Some("c14") => c14(&args[2..]),
        Some("c16") => c16(&args[2..]),
        Some("c17") => c17(&args[2..]),
        Some("record-stress") => record_stress(&args[2..]),
        _ => {
            eprintln!("usage: lvh <replay-hist> ...");
            std::process::exit(2);
        }
    }
    // do not wait for lingering database threads
    std::process::exit(0);
}
