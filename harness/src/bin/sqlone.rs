fn main() {
    lvh::util::quiet_panics();
    let args: Vec<String> = std::env::args().collect();
    let (db, _d) = lvh::sqlc::build(args[1].parse().unwrap());
    match lvh::sqlc::run_stmt(&db, &args[2]) {
        lvh::sqlc::Res::Ok(a) => println!("OK {:?} {} rows", a.colnames, a.rows.len()),
        lvh::sqlc::Res::Err(e) => println!("ERR {}", &e[..e.len().min(300)]),
        lvh::sqlc::Res::Fatal(e) => println!("FATAL {}", e),
    }
    std::process::exit(0);
}
