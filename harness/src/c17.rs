//! C17: Http.tla bound to the real server: `server::run` on a loopback port, requests through reqwest, every
//! answer compared with the embedded API on the same `Arc<LocustDB>`.
//!  - `replay`: a sequential schedule printed by TLC (MC_http) is sent request by request,
//!  - `stress`: concurrent clients; the recorded send / receive events are validated against Http.tla by TLC.
use std::sync::atomic::{AtomicUsize, Ordering};
use std::sync::{Arc, Mutex};
use std::time::Duration;

use locustdb::{BasicTypeColumn, LocustDB, QueryError, Value as RawVal};
use locustdb_compression_utils::xor_float;
use locustdb_serialization::api::{AnyVal, Column, EncodingOpts, MultiQueryRequest, MultiQueryResponse, QueryRequest};
use serde::Deserialize;
use serde_json::{json, Value};

use crate::cells::{column_to_cells, Cell};
use crate::db::{self, Cfg};
use crate::evbuf::{self, ColData, TableData};

pub const ROWS_PER_BATCH: usize = 3;

#[derive(Debug, Clone, Deserialize)]
pub struct Op {
    pub kind: String,
    pub ep: String,
    pub outcome: String,
    pub status: u16,
    pub snap: i64,
    #[serde(default)]
    pub nq: usize,
}

pub struct Server {
    pub db: Arc<LocustDB>,
    pub port: u16,
    handle: actix_web::dev::ServerHandle,
    pub rt: tokio::runtime::Runtime,
    pub client: reqwest::Client,
}

impl Server {
    pub fn start() -> Result<Server, String> {
        let db = db::open(None, &Cfg::default()).done().ok_or("cannot open database")?;
        for _ in 0..20 {
            let port = {
                let l = std::net::TcpListener::bind("127.0.0.1:0").map_err(|e| e.to_string())?;
                l.local_addr().map_err(|e| e.to_string())?.port()
            };
            match locustdb::server::run(db.clone(), false, vec![], format!("127.0.0.1:{}", port)) {
                Ok((handle, _rx)) => {
                    let rt = tokio::runtime::Builder::new_multi_thread().worker_threads(4).enable_all().build().map_err(|e| e.to_string())?;
                    let client = reqwest::Client::builder().timeout(Duration::from_secs(90)).build().map_err(|e| e.to_string())?;
                    let s = Server { db, port, handle, rt, client };
                    // wait until it answers
                    for _ in 0..100 {
                        if s.get_status("/hey") == Some(200) {
                            return Ok(s);
                        }
                        std::thread::sleep(Duration::from_millis(50));
                    }
                    return Err("server does not answer GET /hey".to_string());
                }
                Err(_) => continue,
            }
        }
        Err("no free port".to_string())
    }

    pub fn url(&self, path: &str) -> String {
        format!("http://127.0.0.1:{}{}", self.port, path)
    }

    pub fn get_status(&self, path: &str) -> Option<u16> {
        let url = self.url(path);
        self.rt.block_on(async { self.client.get(url).send().await.ok().map(|r| r.status().as_u16()) })
    }

    /// the server answers a trivial request (several attempts on fresh connections: a loaded machine is not a dead server)
    pub fn alive(&self) -> bool {
        for _ in 0..6 {
            let url = self.url("/hey");
            let ok = self.rt.block_on(async {
                match reqwest::Client::builder().timeout(Duration::from_secs(15)).build() {
                    Ok(c) => c.get(url).send().await.ok().map(|r| r.status().as_u16()) == Some(200),
                    Err(_) => false,
                }
            });
            if ok {
                return true;
            }
            std::thread::sleep(Duration::from_millis(500));
        }
        false
    }

    pub fn stop(self) {
        let h = self.handle.clone();
        self.rt.block_on(async move { tokio::time::timeout(Duration::from_secs(5), h.stop(false)).await.ok() });
    }
}

pub fn batch(k: usize) -> Vec<u8> {
    let k = k as i64;
    let t = TableData {
        name: "t".to_string(),
        len: ROWS_PER_BATCH as u64,
        cols: vec![
            ("id".into(), ColData::I64(vec![3 * k, 3 * k + 1, 3 * k + 2])),
            ("i".into(), ColData::I64(vec![(1 << 53) + 1 + k, -(1 << 60) - k, 7])),
            ("f".into(), ColData::Dense(vec![0.5 + k as f64, -2.25, 1e10])),
            ("g".into(), ColData::Dense(vec![f64::INFINITY, 1.0, f64::NEG_INFINITY])),
            ("s".into(), ColData::Str(vec![format!("a{}", k), "ünï \"q\"".to_string(), String::new()])),
            ("n".into(), ColData::SparseI64(vec![(0, k)])),
            ("nf".into(), ColData::Sparse(vec![(1, 0.25)])),
            ("m".into(), ColData::Mixed(vec![Cell::Int(1), Cell::Str("x".into()), Cell::Null])),
        ],
    };
    evbuf::serialize(&[t])
}

pub fn sql_for(outcome: &str, salt: usize) -> &'static str {
    match outcome {
        "ok" => ["SELECT id, i, f, s FROM t", "SELECT id, n, nf, m, g FROM t", "SELECT id, zz FROM t", "SELECT s, id FROM t WHERE id >= 2 ORDER BY id DESC LIMIT 4", "SELECT id FROM t"][salt % 5],
        "parse_error" => ["SELEC id FROM t", "SELECT id FROM t WHERE", "SELECT id FROM t LIMIT x"][salt % 3],
        "type_error" => ["SELECT i * i FROM t", "SELECT id / 0 FROM t", "SELECT id FROM t WHERE s + 1"][salt % 3],
        "not_implemented" => ["SELECT DISTINCT id FROM t", "SELECT id FROM t GROUP BY id", "SELECT id FROM t JOIN u ON t.id = u.id"][salt % 3],
        "fatal" => ["SELECT id FROM t WHERE NOT (n < 3)", "SELECT id FROM t WHERE NOT n"][salt % 2],
        _ => "SELECT 1",
    }
}

pub fn status_of(e: &QueryError) -> u16 {
    match e {
        QueryError::NotImplemented(_) => 501,
        QueryError::FatalError(_, _) => 500,
        _ => 400,
    }
}

fn raw_json(v: &RawVal) -> Value {
    match v {
        RawVal::Int(i) => json!(i),
        RawVal::Str(s) => json!(s),
        RawVal::Null => Value::Null,
        RawVal::Float(f) => json!(f.0),
    }
}

/// equality of JSON documents; a non-finite float (rendered as null by JSON) is excepted
fn json_same(expected: &Value, expected_nonfinite: bool, got: &Value) -> bool {
    if expected_nonfinite {
        return true;
    }
    match (expected, got) {
        (Value::Number(a), Value::Number(b)) => {
            if a.is_f64() || b.is_f64() {
                a.as_f64().map(|x| x.to_bits()) == b.as_f64().map(|x| x.to_bits()) || a.as_f64() == b.as_f64()
            } else {
                a == b
            }
        }
        _ => expected == got,
    }
}

fn cells_json_same(exp: &[Cell], got: &Value) -> Result<(), String> {
    let arr = got.as_array().ok_or_else(|| format!("not an array: {}", got))?;
    if arr.len() != exp.len() {
        return Err(format!("{} values, expected {}", arr.len(), exp.len()));
    }
    for (i, c) in exp.iter().enumerate() {
        let (e, nonfinite) = match c {
            Cell::Int(v) => (json!(v), false),
            Cell::Float(f) => (json!(f), !f.is_finite()),
            Cell::Str(s) => (json!(s), false),
            Cell::Null => (Value::Null, false),
        };
        if !json_same(&e, nonfinite, &arr[i]) {
            return Err(format!("value {}: {} where the embedded API has {}", i, arr[i], c.short()));
        }
    }
    Ok(())
}

fn api_column_cells(c: &Column) -> Result<Vec<Cell>, String> {
    let fl = |f: f64| if f.to_bits() == xor_float::NULL.to_bits() { Cell::Null } else { Cell::Float(f) };
    Ok(match c {
        Column::Int(v) => v.iter().map(|x| Cell::Int(*x)).collect(),
        Column::Float(v) => v.iter().map(|x| fl(*x)).collect(),
        Column::String(v) => v.iter().map(|x| Cell::Str(x.clone())).collect(),
        Column::Null(n) => vec![Cell::Null; *n],
        Column::Mixed(v) => v
            .iter()
            .map(|x| match x {
                AnyVal::Int(i) => Cell::Int(*i),
                AnyVal::Float(f) => Cell::Float(*f),
                AnyVal::Str(s) => Cell::Str(s.clone()),
                AnyVal::Null => Cell::Null,
            })
            .collect(),
        Column::Xor(d) => xor_float::double::decode(d).map_err(|e| format!("xor decode: {:?}", e))?.into_iter().map(fl).collect(),
    })
}

pub struct HttpAnswer {
    pub status: Option<u16>,
    pub body: Vec<u8>,
    pub err: String,
}

pub async fn post_json<T: serde::Serialize>(client: &reqwest::Client, url: String, body: &T) -> HttpAnswer {
    match client.post(url).json(body).send().await {
        Ok(r) => {
            let status = r.status().as_u16();
            match r.bytes().await {
                Ok(b) => HttpAnswer { status: Some(status), body: b.to_vec(), err: String::new() },
                Err(e) => HttpAnswer { status: Some(status), body: vec![], err: format!("reading the body: {}", e) },
            }
        }
        Err(e) => HttpAnswer { status: None, body: vec![], err: format!("{}", e) },
    }
}

pub async fn post_bytes(client: &reqwest::Client, url: String, body: Vec<u8>) -> HttpAnswer {
    match client.post(url).body(body).send().await {
        Ok(r) => {
            let status = r.status().as_u16();
            let b = r.bytes().await.map(|b| b.to_vec()).unwrap_or_default();
            HttpAnswer { status: Some(status), body: b, err: String::new() }
        }
        Err(e) => HttpAnswer { status: None, body: vec![], err: format!("{}", e) },
    }
}

pub async fn http_query(client: &reqwest::Client, base: &str, ep: &str, sql: &str) -> HttpAnswer {
    match ep {
        "query" => post_json(client, format!("{}/query", base), &QueryRequest { query: sql.to_string() }).await,
        "query_cols" => post_json(client, format!("{}/query_cols", base), &QueryRequest { query: sql.to_string() }).await,
        "multi_json" => post_json(client, format!("{}/multi_query_cols", base), &MultiQueryRequest { queries: vec![sql.to_string()], encoding_opts: None }).await,
        "multi_bin" | "multi_xor" => {
            let opts = EncodingOpts { xor_float_compression: ep == "multi_xor", mantissa: None, full_precision_cols: Default::default() };
            post_json(client, format!("{}/multi_query_cols", base), &MultiQueryRequest { queries: vec![sql.to_string()], encoding_opts: Some(opts) }).await
        }
        _ => panic!("endpoint"),
    }
}

pub async fn http_multi(client: &reqwest::Client, base: &str, ep: &str, sqls: &[String]) -> HttpAnswer {
    let opts = match ep {
        "multi_json" => None,
        _ => Some(EncodingOpts { xor_float_compression: ep == "multi_xor", mantissa: None, full_precision_cols: Default::default() }),
    };
    post_json(client, format!("{}/multi_query_cols", base), &MultiQueryRequest { queries: sqls.to_vec(), encoding_opts: opts }).await
}

/// a multi-statement request: one answer per statement, in request order, each equal to the embedded answer; the
/// status of the first failing statement otherwise
pub fn compare_multi(ep: &str, sqls: &[String], http: &HttpAnswer, embs: &[Result<locustdb::QueryOutput, QueryError>]) -> Result<(), (String, String)> {
    let status = match http.status {
        Some(s) => s,
        None => return Err(("answered".into(), format!("POST {} {:?}: no HTTP answer ({})", ep, sqls, http.err))),
    };
    if let Some(e) = embs.iter().find_map(|e| e.as_ref().err()) {
        let want = status_of(e);
        return if status == want { Ok(()) } else { Err(("status".into(), format!("POST {} {:?}: HTTP {} where the embedded API fails with {:?} (expected {})", ep, sqls, status, format!("{}", e).chars().take(80).collect::<String>(), want))) };
    }
    if status != 200 {
        return Err(("status".into(), format!("POST {} {:?}: HTTP {} where the embedded API succeeds", ep, sqls, status)));
    }
    let dummy: Result<locustdb::QueryOutput, QueryError> = Err(QueryError::Overflow);
    if ep == "multi_json" {
        let v: Value = serde_json::from_slice(&http.body).map_err(|e| ("values".to_string(), format!("body is not JSON: {}", e)))?;
        let a = v.as_array().cloned().unwrap_or_default();
        if a.len() != sqls.len() {
            return Err(("values".into(), format!("POST {} {:?}: {} answers for {} statements", ep, sqls, a.len(), sqls.len())));
        }
        for (i, part) in a.iter().enumerate() {
            let h = HttpAnswer { status: Some(200), body: serde_json::to_vec(part).unwrap(), err: String::new() };
            compare("query_cols", &sqls[i], &h, &dummy, &embs[i]).map_err(|(o, w)| (o, format!("statement {} of {:?}: {}", i, sqls, w)))?;
        }
    } else {
        let m = match std::panic::catch_unwind(|| MultiQueryResponse::deserialize(&http.body)) {
            Ok(Ok(m)) => m,
            _ => return Err(("values".into(), format!("POST {} {:?}: binary body does not decode", ep, sqls))),
        };
        if m.responses.len() != sqls.len() {
            return Err(("values".into(), format!("POST {} {:?}: {} answers for {} statements", ep, sqls, m.responses.len(), sqls.len())));
        }
        for (i, r) in m.responses.into_iter().enumerate() {
            let h = HttpAnswer { status: Some(200), body: MultiQueryResponse { responses: vec![r] }.serialize(), err: String::new() };
            compare(ep, &sqls[i], &h, &dummy, &embs[i]).map_err(|(o, w)| (o, format!("statement {} of {:?}: {}", i, sqls, w)))?;
        }
    }
    Ok(())
}

/// compares an HTTP answer with the embedded outcome of the same query on the same database state
pub fn compare(ep: &str, sql: &str, http: &HttpAnswer, emb_rows: &Result<locustdb::QueryOutput, QueryError>, emb_cols: &Result<locustdb::QueryOutput, QueryError>) -> Result<(), (String, String)> {
    let emb = if ep == "query" { emb_rows } else { emb_cols };
    let status = match http.status {
        Some(s) => s,
        None => return Err(("answered".into(), format!("POST {} {:?}: no HTTP answer ({}); the embedded API gives {}", ep, sql, http.err, match emb { Ok(_) => "a result".to_string(), Err(e) => format!("{}", e) }))),
    };
    match emb {
        Err(e) => {
            let want = status_of(e);
            if status != want {
                return Err(("status".into(), format!("POST {} {:?}: HTTP {} where the embedded API fails with {:?} (expected {})", ep, sql, status, format!("{}", e).chars().take(80).collect::<String>(), want)));
            }
            Ok(())
        }
        Ok(out) => {
            if status != 200 {
                return Err(("status".into(), format!("POST {} {:?}: HTTP {} ({}) where the embedded API succeeds", ep, sql, status, String::from_utf8_lossy(&http.body).chars().take(120).collect::<String>())));
            }
            let bad = |w: String| Err(("values".to_string(), format!("POST {} {:?}: {}", ep, sql, w)));
            match ep {
                "query" => {
                    let v: Value = serde_json::from_slice(&http.body).map_err(|e| ("values".to_string(), format!("POST query {:?}: body is not JSON: {}", sql, e)))?;
                    if v["colnames"] != json!(out.colnames) {
                        return bad(format!("colnames {} where the embedded API has {:?}", v["colnames"], out.colnames));
                    }
                    let rows = out.rows.as_ref().unwrap();
                    let got = v["rows"].as_array().cloned().unwrap_or_default();
                    if got.len() != rows.len() {
                        return bad(format!("{} rows where the embedded API has {}", got.len(), rows.len()));
                    }
                    for (ri, r) in rows.iter().enumerate() {
                        let cells: Vec<Cell> = r.iter().map(Cell::from_raw).collect();
                        if let Err(w) = cells_json_same(&cells, &got[ri]) {
                            return bad(format!("row {}: {}", ri, w));
                        }
                        let _ = raw_json(&r[0]);
                    }
                    Ok(())
                }
                "query_cols" | "multi_json" => {
                    let v: Value = serde_json::from_slice(&http.body).map_err(|e| ("values".to_string(), format!("body is not JSON: {}", e)))?;
                    let v = if ep == "multi_json" {
                        match v.as_array() {
                            Some(a) if a.len() == 1 => a[0].clone(),
                            _ => return bad(format!("expected a list with one result, got {}", v.to_string().chars().take(100).collect::<String>())),
                        }
                    } else {
                        v
                    };
                    if v["colnames"] != json!(out.colnames) {
                        return bad(format!("colnames {} where the embedded API has {:?}", v["colnames"], out.colnames));
                    }
                    let cols = v["cols"].as_object().cloned().unwrap_or_default();
                    if cols.len() != out.columns.len() {
                        return bad(format!("{} columns where the embedded API has {}", cols.len(), out.columns.len()));
                    }
                    for (name, col) in &out.columns {
                        let g = match cols.get(name) {
                            Some(g) => g,
                            None => return bad(format!("column {:?} is missing", name)),
                        };
                        if let BasicTypeColumn::Null(n) = col {
                            // an all-NULL column is rendered as its length
                            if g.as_u64() == Some(*n as u64) || g.as_array().map(|a| a.len() == *n && a.iter().all(|x| x.is_null())).unwrap_or(false) {
                                continue;
                            }
                            return bad(format!("column {:?}: {} where the embedded API has {} NULLs", name, g, n));
                        }
                        if let Err(w) = cells_json_same(&column_to_cells(col), g) {
                            return bad(format!("column {:?}: {}", name, w));
                        }
                    }
                    Ok(())
                }
                _ => {
                    let m = match std::panic::catch_unwind(|| MultiQueryResponse::deserialize(&http.body)) {
                        Ok(Ok(m)) => m,
                        Ok(Err(e)) => return bad(format!("binary body does not decode: {:?}", e)),
                        Err(_) => return bad("binary body makes the decoder panic".to_string()),
                    };
                    if m.responses.len() != 1 {
                        return bad(format!("{} responses for one query", m.responses.len()));
                    }
                    let r = &m.responses[0];
                    if r.columns.len() != out.columns.len() {
                        return bad(format!("{} columns where the embedded API has {}", r.columns.len(), out.columns.len()));
                    }
                    for (name, col) in &out.columns {
                        let g = match r.columns.get(name) {
                            Some(g) => g,
                            None => return bad(format!("column {:?} is missing", name)),
                        };
                        let got = api_column_cells(g).map_err(|w| ("values".to_string(), w))?;
                        let want = column_to_cells(col);
                        if got != want {
                            return bad(format!("column {:?}: {:?} where the embedded API has {:?}", name, got.iter().map(Cell::short).collect::<Vec<_>>(), want.iter().map(Cell::short).collect::<Vec<_>>()));
                        }
                    }
                    Ok(())
                }
            }
        }
    }
}

fn embedded(s: &Server, sql: &str, rows: bool) -> Result<locustdb::QueryOutput, QueryError> {
    let db = s.db.clone();
    let sql = sql.to_string();
    match crate::util::with_plain_deadline(Duration::from_secs(20), move || crate::util::block_on(db.run_query(&sql, false, rows, vec![]))) {
        crate::util::Outcome::Done(r) => r,
        _ => Err(QueryError::FatalError("embedded query did not finish".to_string(), std::backtrace::Backtrace::capture())),
    }
}

/// one sequential schedule of MC_http
pub fn replay(s: &Server, ops: &[Op], case: usize, next_batch: &mut usize, seen_status: &mut std::collections::BTreeMap<u16, usize>) -> Vec<Value> {
    let mut out = vec![];
    let base = s.url("");
    for (k, op) in ops.iter().enumerate() {
        if op.kind == "insert" {
            let a = s.rt.block_on(post_bytes(&s.client, format!("{}/insert_bin", base), batch(*next_batch)));
            *next_batch += 1;
            if a.status != Some(200) {
                out.push(json!({"oracle": "insert", "what": format!("POST insert_bin: {:?} {}", a.status, a.err)}));
                return out;
            }
            // the rows are visible to the embedded API once the insert is acknowledged
            let want = *next_batch * ROWS_PER_BATCH;
            match embedded(s, "SELECT id FROM t", true) {
                Ok(o) if o.rows.as_ref().map(|r| r.len()) == Some(want) => {}
                o => out.push(json!({"oracle": "insert", "what": format!("after {} acknowledged inserts the embedded API sees {:?} rows, expected {}", next_batch, o.map(|o| o.rows.map(|r| r.len())).map_err(|e| format!("{}", e)), want)})),
            }
            continue;
        }
        let sql = sql_for(&op.outcome, case + k);
        if op.nq > 1 && op.ep.starts_with("multi") {
            // several statements: the statement of the op's class, others that succeed, and a repetition
            let other = sql_for("ok", case + k + 1).to_string();
            let sqls: Vec<String> = match (op.outcome.as_str(), op.nq) {
                ("ok", 2) => vec![sql.to_string(), sql.to_string()],
                ("ok", _) => vec![sql.to_string(), other, sql.to_string()],
                (_, 2) => vec![other, sql.to_string()],
                _ => vec![other.clone(), sql.to_string(), other],
            };
            let embs: Vec<_> = sqls.iter().map(|q| embedded(s, q, false)).collect();
            crate::util::take_panics();
            let a = s.rt.block_on(http_multi(&s.client, &base, &op.ep, &sqls));
            if let Some(st) = a.status {
                *seen_status.entry(st).or_default() += 1;
            }
            if let Err((oracle, what)) = compare_multi(&op.ep, &sqls, &a, &embs) {
                out.push(json!({"oracle": oracle, "ep": op.ep, "sql": sql, "what": what, "panics": crate::util::take_panics()}));
            }
            if !s.alive() {
                out.push(json!({"oracle": "alive", "ep": op.ep, "sql": sql, "what": format!("after POST {} {:?} the server does not answer GET /hey", op.ep, sqls)}));
                return out;
            }
            continue;
        }
        let emb_rows = embedded(s, sql, true);
        let emb_cols = embedded(s, sql, false);
        crate::util::take_panics();
        let a = s.rt.block_on(http_query(&s.client, &base, &op.ep, sql));
        if let Some(st) = a.status {
            *seen_status.entry(st).or_default() += 1;
        }
        if let Err((oracle, what)) = compare(&op.ep, sql, &a, &emb_rows, &emb_cols) {
            out.push(json!({"oracle": oracle, "ep": op.ep, "sql": sql, "what": what, "panics": crate::util::take_panics()}));
        }
        // the server keeps answering
        if !s.alive() {
            out.push(json!({"oracle": "alive", "ep": op.ep, "sql": sql, "what": format!("after POST {} {:?} the server does not answer GET /hey", op.ep, sql)}));
            return out;
        }
    }
    out
}

/// concurrent clients; returns the event trace for Trace_Http.tla plus direct violations
pub fn stress(s: &Server, clients: usize, reqs_per_client: usize, seed: u64) -> (Vec<Value>, Vec<Value>) {
    use rand::{Rng, SeedableRng};
    let events: Arc<Mutex<Vec<Value>>> = Arc::new(Mutex::new(vec![]));
    let vio: Arc<Mutex<Vec<Value>>> = Arc::new(Mutex::new(vec![]));
    let next_batch = Arc::new(AtomicUsize::new(0));
    let base = s.url("");
    let eps = ["query", "query_cols", "multi_json", "multi_bin", "multi_xor"];
    // the failing statements, classified by what the embedded API does with them (the table exists already)
    let mut failing: Vec<(&'static str, &'static str)> = vec![];
    for cls in ["parse_error", "type_error", "not_implemented", "fatal"] {
        for salt in 0..3 {
            let sql = sql_for(cls, salt);
            if let Err(e) = embedded(s, sql, true) {
                let actual = match status_of(&e) {
                    501 => "not_implemented",
                    500 => "fatal",
                    _ => if cls == "type_error" { "type_error" } else { "parse_error" },
                };
                if !failing.iter().any(|(q, _)| *q == sql) {
                    failing.push((sql, actual));
                }
            }
        }
    }
    crate::util::take_panics();
    let failing = Arc::new(failing);
    s.rt.block_on(async {
        let mut tasks = vec![];
        for c in 0..clients {
            let (events, vio, next_batch, base, client, failing) = (events.clone(), vio.clone(), next_batch.clone(), base.clone(), s.client.clone(), failing.clone());
            let mut rng = rand::rngs::StdRng::seed_from_u64(seed * 1000 + c as u64);
            tasks.push(tokio::spawn(async move {
                let cname = format!("c{}", c + 1);
                for _ in 0..reqs_per_client {
                    if rng.random_range(0..3) == 0 {
                        let b = {
                            // the batch number and the send event are taken together
                            let mut ev = events.lock().unwrap();
                            let b = next_batch.fetch_add(1, Ordering::SeqCst);
                            ev.push(json!({"ev": "send", "c": cname, "kind": "insert", "ep": "insert_bin", "outcome": "ok"}));
                            b
                        };
                        let a = post_bytes(&client, format!("{}/insert_bin", base), batch(b)).await;
                        events.lock().unwrap().push(json!({"ev": "recv", "c": cname, "kind": "insert", "status": a.status.unwrap_or(0), "snap": -1}));
                    } else {
                        let ep = eps[rng.random_range(0..eps.len())];
                        // succeeding queries count the rows: the number of batches visible to the query
                        let (sql, outcome) = if rng.random_range(0..2) == 0 || failing.is_empty() { ("SELECT id FROM t", "ok") } else { failing[rng.random_range(0..failing.len())] };
                        events.lock().unwrap().push(json!({"ev": "send", "c": cname, "kind": "query", "ep": ep, "outcome": outcome}));
                        let a = http_query(&client, &base, ep, sql).await;
                        let mut snap: i64 = -1;
                        if outcome == "ok" && a.status == Some(200) {
                            let rows = count_rows(ep, &a.body);
                            match rows {
                                Some(r) if r % ROWS_PER_BATCH == 0 => snap = (r / ROWS_PER_BATCH) as i64,
                                Some(r) => vio.lock().unwrap().push(json!({"oracle": "batch-atomic", "ep": ep, "what": format!("POST {} SELECT id FROM t returns {} rows: part of a batch of {}", ep, r, ROWS_PER_BATCH)})),
                                None => vio.lock().unwrap().push(json!({"oracle": "values", "ep": ep, "what": format!("POST {} SELECT id FROM t: body does not decode", ep)})),
                            }
                        }
                        events.lock().unwrap().push(json!({"ev": "recv", "c": cname, "kind": "query", "status": a.status.unwrap_or(0), "snap": snap}));
                    }
                }
            }));
        }
        for t in tasks {
            let _ = t.await;
        }
    });
    let ev = events.lock().unwrap().clone();
    let v = vio.lock().unwrap().clone();
    (ev, v)
}

fn count_rows(ep: &str, body: &[u8]) -> Option<usize> {
    match ep {
        "query" => serde_json::from_slice::<Value>(body).ok()?["rows"].as_array().map(|a| a.len()),
        "query_cols" => col_len(&serde_json::from_slice::<Value>(body).ok()?["cols"]["id"]),
        "multi_json" => col_len(&serde_json::from_slice::<Value>(body).ok()?[0]["cols"]["id"]),
        _ => {
            let m = MultiQueryResponse::deserialize(body).ok()?;
            let c = m.responses.first()?.columns.get("id")?;
            api_column_cells(c).ok().map(|c| c.len())
        }
    }
}

fn col_len(v: &Value) -> Option<usize> {
    // before the first insert the table does not exist: no column
    if v.is_null() {
        return Some(0);
    }
    v.as_array().map(|a| a.len()).or(v.as_u64().map(|n| n as usize))
}
