//! C02-C05: answers of QuerySem.tla (emitted by MC_query) compared with the real engine.
//! One database per (table, encoding class, layout); every query of the family is run against it.
use std::collections::BTreeMap;
use std::sync::Arc;

use locustdb::LocustDB;
use serde_json::{json, Value};

use crate::cells::Cell;
use crate::db::{self, Cfg};
use crate::evbuf::{col_from_cells, event_buffer, TableData};
use crate::util::Outcome;

pub const NULL: i64 = -1000;
pub const COLS: [&str; 9] = ["id", "i", "f", "s", "n", "nf", "ns", "l", "z"];
pub const NUM_CLASSES: usize = 7;

#[derive(Clone, Copy, PartialEq, Debug)]
pub enum Ty {
    Int,
    Float,
    Str,
    Absent,
}

pub fn col_ty(c: &str) -> Ty {
    match c {
        "id" | "i" | "n" | "l" => Ty::Int,
        "f" | "nf" => Ty::Float,
        "s" | "ns" => Ty::Str,
        _ => Ty::Absent,
    }
}

/// affine concretisation of the abstract index for numeric columns: v = a*k + b
pub fn affine(class: usize) -> (i64, i64) {
    match class % NUM_CLASSES {
        0 => (1, 0),
        1 => (40, 1000),
        2 => (10_000, -300),
        3 => (1 << 20, 7),
        4 => (1 << 40, -(1 << 41)),
        5 => (3, 250),
        _ => (1, -3),
    }
}

fn str_prefix(class: usize) -> &'static str {
    match class % NUM_CLASSES {
        0 => "",
        1 => "str_",
        2 => "abcdeg",
        3 => "a rather long common prefix, ",
        4 => "ü-",
        5 => "Z",
        _ => "s",
    }
}

/// Boundary classes (filters and sorts only: strictly monotone, not affine): the column values 0, 2, 4, 6 span
/// exactly the range of a narrow stored type (class 7: 0..=255 as u8; class 8: 1000..=66535 as u16 with offset),
/// so the largest value is stored as the type's maximum and the constants 7, 9 lie just beyond it.
pub const BOUNDARY_CLASSES: [usize; 2] = [7, 8];
pub fn value(class: usize, k: i64) -> i64 {
    let table = |t: [i64; 13]| t[(k + 3) as usize];
    match class {
        //          -3    -2   -1  0  1  2      3      4      5      6      7      8      9
        7 => table([-100, -2, -1, 0, 1, 84, 85, 168, 254, 255, 256, 257, 300]),
        8 => 1000 + table([-1000, -2, -1, 0, 1, 20000, 20001, 40000, 65534, 65535, 65536, 65537, 70000]),
        _ => {
            let (a, b) = affine(class);
            a * k + b
        }
    }
}

pub fn gamma(class: usize, col: &str, k: i64) -> Cell {
    if k == NULL {
        return Cell::Null;
    }
    match col_ty(col) {
        Ty::Int if col == "id" => Cell::Int(k),
        Ty::Int | Ty::Absent => Cell::Int(value(class, k)),
        Ty::Float => Cell::Float(value(class, k) as f64),
        Ty::Str => Cell::Str(format!("{}{:02}", str_prefix(class), k + 3)),
    }
}

fn lit(class: usize, col: &str, k: i64, salt: usize) -> String {
    match gamma(class, col, k) {
        Cell::Int(v) => {
            if salt % 3 == 1 {
                format!("{}.0", v)
            } else {
                format!("{}", v)
            }
        }
        Cell::Float(v) => {
            if salt % 2 == 0 {
                format!("{:.1}", v)
            } else {
                format!("{}", v as i64)
            }
        }
        Cell::Str(s) => format!("'{}'", s),
        Cell::Null => "NULL".into(),
    }
}

fn render_expr(class: usize, e: &Value, other: &Value, salt: usize) -> String {
    if e["k"] == "col" {
        e["c"].as_str().unwrap().to_string()
    } else {
        // a constant takes the type of the column it is compared with
        let col = if other["k"] == "col" { other["c"].as_str().unwrap() } else { "i" };
        let col = if col_ty(col) == Ty::Absent { "i" } else { col };
        lit(class, col, e["v"].as_i64().unwrap(), salt)
    }
}

pub fn render_pred(class: usize, p: &Value, salt: usize) -> String {
    match p["k"].as_str().unwrap() {
        "cmp" => format!("{} {} {}", render_expr(class, &p["l"], &p["r"], salt), p["op"].as_str().unwrap(), render_expr(class, &p["r"], &p["l"], salt)),
        "isnull" => format!("{} IS NULL", p["e"]["c"].as_str().unwrap()),
        "notnull" => format!("{} IS NOT NULL", p["e"]["c"].as_str().unwrap()),
        "and" => format!("({}) AND ({})", render_pred(class, &p["l"], salt), render_pred(class, &p["r"], salt + 1)),
        "or" => format!("({}) OR ({})", render_pred(class, &p["l"], salt), render_pred(class, &p["r"], salt + 1)),
        "not" => format!("NOT ({})", render_pred(class, &p["p"], salt)),
        "true" => "1 = 1".into(),
        k => panic!("pred kind {}", k),
    }
}

#[derive(Clone, Debug)]
pub struct Layout {
    pub name: &'static str,
    /// batch boundaries as fractions of the table (row counts are computed per table)
    pub cuts: Vec<(usize, usize)>, // (numerator, denominator) of each cut position
    pub flush_after: Vec<bool>,    // per batch
    pub disk: bool,
    pub restart: bool,
    pub combine: u64,
    pub batch_size: usize,
    pub threads: usize,
    pub lz4: bool,
    pub part_bytes: u64,
}

pub fn layouts() -> Vec<Layout> {
    let big = 8 * 1024 * 1024;
    vec![
        Layout { name: "buffer-mem", cuts: vec![], flush_after: vec![false], disk: false, restart: false, combine: 999, batch_size: 1024, threads: 2, lz4: true, part_bytes: big },
        Layout { name: "one-partition", cuts: vec![], flush_after: vec![true], disk: true, restart: false, combine: 999, batch_size: 8, threads: 1, lz4: true, part_bytes: big },
        Layout { name: "two-partitions", cuts: vec![(1, 2)], flush_after: vec![true, true], disk: true, restart: false, combine: 999, batch_size: 16, threads: 4, lz4: false, part_bytes: big },
        Layout { name: "two-partitions+buffer", cuts: vec![(1, 3), (2, 3)], flush_after: vec![true, true, false], disk: true, restart: false, combine: 999, batch_size: 1024, threads: 2, lz4: true, part_bytes: 1 },
        Layout { name: "compacted+restart", cuts: vec![(1, 2)], flush_after: vec![true, true], disk: true, restart: true, combine: 0, batch_size: 64, threads: 2, lz4: true, part_bytes: 200 },
        Layout { name: "three-batches-one-buffer", cuts: vec![(1, 3), (2, 3)], flush_after: vec![false, false, false], disk: false, restart: false, combine: 999, batch_size: 8, threads: 8, lz4: true, part_bytes: big },
    ]
}

/// Drops a database that may have lost workers without waiting for it: its threads are told to stop (so they do not
/// keep the machine busy for the rest of the run); if the drop itself hangs, only the detached thread does.
pub fn discard(b: Built) {
    std::thread::spawn(move || drop(b));
}

pub struct Built {
    pub db: Arc<LocustDB>,
    _dir: Option<tempfile::TempDir>,
}

pub fn build(rows: &[Value], class: usize, lay: &Layout) -> Result<Built, String> {
    let n = rows.len();
    let mut bounds: Vec<usize> = vec![0];
    for (a, b) in &lay.cuts {
        let c = n * a / b;
        if c > *bounds.last().unwrap() && c < n {
            bounds.push(c);
        }
    }
    bounds.push(n);
    let dir = if lay.disk { Some(tempfile::tempdir().map_err(|e| e.to_string())?) } else { None };
    let cfg = Cfg {
        combine_factor: lay.combine,
        max_partition_size_bytes: lay.part_bytes,
        mem_lz4: lay.lz4,
        batch_size: lay.batch_size,
        threads: lay.threads,
        ..Cfg::default()
    };
    let mut db = db::open(dir.as_ref().map(|d| d.path()), &cfg).done().ok_or("open failed")?;
    for (bi, w) in bounds.windows(2).enumerate() {
        let (lo, hi) = (w[0], w[1]);
        if lo == hi {
            continue;
        }
        let mut cols = vec![];
        for c in COLS {
            if col_ty(c) == Ty::Absent {
                continue;
            }
            let cells: Vec<Cell> = rows[lo..hi].iter().map(|r| gamma(class, c, r[c].as_i64().unwrap())).collect();
            // a column that is entirely NULL in this batch is simply not part of the batch
            if cells.iter().all(|x| x.is_null()) && (bi + class) % 2 == 0 {
                continue;
            }
            cols.push((c.to_string(), col_from_cells(&cells)));
        }
        let t = TableData { name: "t".into(), len: (hi - lo) as u64, cols };
        db::ingest(&db, event_buffer(&[t])).done().ok_or("ingest failed")?;
        if lay.disk && lay.flush_after.get(bi).cloned().unwrap_or(false) {
            db::flush(&db).done().ok_or("flush failed")?;
        }
    }
    if lay.restart {
        drop(db);
        db = db::open(dir.as_ref().map(|d| d.path()), &cfg).done().ok_or("reopen failed")?;
    }
    Ok(Built { db, _dir: dir })
}

pub static CURRENT_SQL: std::sync::Mutex<String> = std::sync::Mutex::new(String::new());

/// Runs on the calling thread (the whole batch of queries of one database runs under one deadline
/// in the caller; CURRENT_SQL attributes a hang). A panic that unwinds into the caller is caught.
fn run_sql(db: &Arc<LocustDB>, sql: &str) -> Result<db::Answer, String> {
    *CURRENT_SQL.lock().unwrap() = sql.to_string();
    let before = crate::util::panic_count();
    let r = std::panic::catch_unwind(std::panic::AssertUnwindSafe(|| {
        crate::util::block_on_timeout_panic_aware(db.run_query(sql, false, true, vec![]), std::time::Duration::from_secs(10), std::time::Duration::from_millis(400))
    }));
    let r = match r {
        Ok(None) => return Err(format!("FATAL the query did not return within 10 s (or within 0.4 s of a panic in a database thread) | panics: {:?}", crate::util::take_panics().iter().take(2).collect::<Vec<_>>())),
        Ok(Some(x)) => Ok(x),
        Err(e) => Err(e),
    };
    match r {
        Ok(Ok(out)) => {
            if crate::util::panic_count() > before {
                return Err("FATAL a thread of the database panicked while answering".into());
            }
            Ok(db::to_answer(&out))
        }
        Ok(Err(e)) => {
            if crate::util::panic_count() > before {
                return Err(format!("FATAL a thread of the database panicked: {:?}", e));
            }
            Err(format!("ERR {:?}", e))
        }
        Err(e) => Err(format!("FATAL panic in the caller: {}", crate::util::panic_message(e))),
    }
}

fn ids_of(a: &db::Answer, col: usize) -> Vec<i64> {
    a.rows.iter().map(|r| if let Cell::Int(i) = r[col] { i } else { -1 }).collect()
}

/// C03: every predicate of the family; returns (queries run, nontrivial, violations)
fn has_kind(p: &Value, kind: &str) -> bool {
    p["k"] == kind || ["l", "r", "p"].iter().any(|f| p.get(*f).map(|x| x.is_object() && has_kind(x, kind)).unwrap_or(false))
}

fn has_str_order_atom(p: &Value) -> bool {
    if p["k"] == "cmp" {
        let op = p["op"].as_str().unwrap_or("");
        let str_col = |e: &Value| e["k"] == "col" && col_ty(e["c"].as_str().unwrap_or("")) == Ty::Str;
        return ["<", "<=", ">", ">="].contains(&op) && (str_col(&p["l"]) || str_col(&p["r"])) && (p["l"]["k"] == "const" || p["r"]["k"] == "const");
    }
    ["l", "r", "p"].iter().any(|f| p.get(*f).map(|x| x.is_object() && has_str_order_atom(x)).unwrap_or(false))
}

pub fn check_filters(b: &Built, class: usize, preds: &[Value], expected: &[Value], expected_dev_or: &[Value], nrows: usize, vio: &mut Vec<Value>) -> (usize, usize) {
    let mut nontrivial = 0;
    for (pi, p) in preds.iter().enumerate() {
        let want: Vec<i64> = expected[pi].as_array().unwrap().iter().map(|x| x.as_i64().unwrap()).collect();
        if !want.is_empty() && want.len() < nrows {
            nontrivial += 1;
        }
        let sql = format!("SELECT id FROM t WHERE {}", render_pred(class, p, pi));
        match run_sql(&b.db, &sql) {
            Ok(a) => {
                let got = ids_of(&a, 0);
                if got != want {
                    // matching by deviation: equal to the specification's answer with exactly OrUnknownIsUnknown switched on?
                    let dev: Vec<i64> = expected_dev_or[pi].as_array().unwrap().iter().map(|x| x.as_i64().unwrap()).collect();
                    let kf = if got == dev && has_kind(p, "or") {
                        Some("KF4")
                    } else if has_str_order_atom(p) {
                        // KF6: order comparison of a (dictionary-encoded) string column with a constant
                        Some("KF6")
                    } else {
                        None
                    };
                    vio.push(json!({"prop": "C03", "oracle": "rows", "sql": sql, "pred": p, "kf": kf, "what": format!("returned ids {:?}, specification says {:?}", got, want)}));
                }
            }
            Err(e) => {
                let kf = if has_kind(p, "not") && (e.contains("NullableU8 != U8") || e.contains("Found NOT(")) { Some("KF5") } else { None };
                let fatal = e.starts_with("FATAL");
                vio.push(json!({"prop": "C03", "oracle": if fatal { "completes" } else { "error" }, "sql": sql, "pred": p, "kf": kf, "what": e}));
                if fatal {
                    break; // the database may have lost workers: judge nothing further on it
                }
            }
        }
        if vio.iter().filter(|v| v["kf"].is_null()).count() > 50 {
            break;
        }
    }
    (preds.len(), nontrivial)
}

fn agg_sql(a: &Value) -> String {
    match a["f"].as_str().unwrap() {
        "count1" => "COUNT(1)".into(),
        f => format!("{}({})", f.to_uppercase(), a["c"].as_str().unwrap()),
    }
}

/// admissible concrete values of an aggregate result
fn agg_matches(class: usize, a: &Value, exp: &Value, got: &Cell) -> bool {
    let col = a["c"].as_str().unwrap_or("");
    let ty = col_ty(col);
    let (ga, gb) = affine(class);
    match exp["kind"].as_str().unwrap() {
        "int" => {
            let v = exp["v"].as_i64().unwrap();
            // COUNT(c) over no non-NULL input is reported as NULL by the engine's own tests
            *got == Cell::Int(v) || (v == 0 && a["f"] == "count" && got.is_null())
        }
        "null" => got.is_null(),
        "cell" => {
            let want = gamma(class, col, exp["v"].as_i64().unwrap());
            match (&want, got) {
                (Cell::Float(x), Cell::Float(y)) => x == y,
                (w, g) => w == g,
            }
        }
        "sum" | "avg" => {
            let (sumk, cnt) = (exp["v"].as_i64().unwrap() as i128, exp["cnt"].as_i64().unwrap() as i128);
            let sum: i128 = if ty == Ty::Absent { 0 } else { ga as i128 * sumk + gb as i128 * cnt };
            let avg = exp["kind"] == "avg";
            match (ty, got) {
                (Ty::Int, Cell::Int(g)) => {
                    if avg {
                        *g as i128 == sum / cnt
                    } else {
                        *g as i128 == sum
                    }
                }
                (Ty::Float, Cell::Float(g)) => {
                    let want = if avg { sum as f64 / cnt as f64 } else { sum as f64 };
                    (g - want).abs() <= 1e-9 * want.abs().max(1.0)
                }
                _ => false,
            }
        }
        _ => false,
    }
}

/// is the aggregate outside the fragment the property quantifies over (engine refuses it)?
fn agg_may_error(a: &Value) -> bool {
    let col = a["c"].as_str().unwrap_or("");
    (a["f"] == "avg" && col_ty(col) == Ty::Float) || col_ty(col) == Ty::Absent
}

/// C04
pub fn check_groups(b: &mut Built, rebuild: &dyn Fn() -> Result<Built, String>, class: usize, queries: &[Value], expected: &[Value], vio: &mut Vec<Value>) -> (usize, usize) {
    let mut nontrivial = 0;
    let mut judged = 0;
    // a query that makes a database thread panic leaves the database short of workers: it is rebuilt and the
    // remaining queries go on; queries with the same keys and aggregates as one that panicked are left out
    // (they are counted as not judged), so one defect cannot consume the whole family
    let mut rebuilds = 0;
    let mut tripped: Vec<(Value, Value)> = vec![];
    for (qi, q) in queries.iter().enumerate() {
        if tripped.iter().any(|(k, a)| *k == q["keys"] && *a == q["aggs"]) {
            continue;
        }
        judged += 1;
        let keys: Vec<&str> = q["keys"].as_array().unwrap().iter().map(|k| k.as_str().unwrap()).collect();
        let aggs = q["aggs"].as_array().unwrap();
        let mut sel: Vec<String> = keys.iter().map(|k| k.to_string()).collect();
        sel.extend(aggs.iter().map(agg_sql));
        let mut sql = format!("SELECT {} FROM t", sel.join(", "));
        if q["where"]["k"] != "true" {
            sql.push_str(&format!(" WHERE {}", render_pred(class, &q["where"], qi)));
        }
        let exp_rows = expected[qi].as_array().unwrap();
        if exp_rows.len() > 1 {
            nontrivial += 1;
        }
        let mut res = run_sql(&b.db.clone(), &sql);
        if matches!(&res, Err(e) if e.starts_with("FATAL")) {
            // a panic is attributed to the query in flight, but threads of a database that an earlier query left
            // behind may still be dying: the verdict is taken from a second run on a fresh database
            std::thread::sleep(std::time::Duration::from_millis(200));
            if let Ok(nb) = rebuild() {
                let old = std::mem::replace(b, nb);
                discard(old);
                crate::util::take_panics();
                res = run_sql(&b.db.clone(), &sql);
            }
        }
        let qpanics = crate::util::take_panics();
        let vio_before = vio.len();
        match res {
            Ok(a) => {
                // multiset comparison: every expected group matches exactly one returned row
                let mut used = vec![false; a.rows.len()];
                let mut bad: Option<String> = None;
                if keys.is_empty() && exp_rows.is_empty() && a.rows.len() <= 1 {
                    // no row passes the filter and there is no grouping expression: zero rows, or one row of
                    // aggregates over nothing, are both within the property's wording
                } else if a.rows.len() != exp_rows.len() {
                    bad = Some(format!("{} result rows, specification has {} groups", a.rows.len(), exp_rows.len()));
                } else {
                    for er in exp_rows {
                        let ek: Vec<Cell> = er["key"].as_array().unwrap().iter().enumerate().map(|(j, v)| gamma(class, keys[j], v.as_i64().unwrap())).collect();
                        let found = a.rows.iter().enumerate().position(|(ri, r)| {
                            !used[ri]
                                && ek.iter().enumerate().all(|(j, c)| match (c, &r[j]) {
                                    (Cell::Float(x), Cell::Float(y)) => x == y,
                                    (x, y) => x == y,
                                })
                                && aggs.iter().enumerate().all(|(j, ag)| agg_matches(class, ag, &er["aggs"][j], &r[keys.len() + j]))
                        });
                        match found {
                            Some(ri) => used[ri] = true,
                            None => {
                                bad = Some(format!("no result row for group {:?} with aggregates {}; result rows: {:?}", ek.iter().map(|c| c.short()).collect::<Vec<_>>(), er["aggs"], a.rows.iter().take(8).map(|r| r.iter().map(|c| c.short()).collect::<Vec<_>>()).collect::<Vec<_>>()));
                                break;
                            }
                        }
                    }
                }
                if let Some(w) = bad {
                    vio.push(json!({"prop": "C04", "oracle": "groups", "sql": sql, "what": w}));
                }
            }
            Err(e) => {
                if e.starts_with("FATAL") || !aggs.iter().any(agg_may_error) {
                    vio.push(json!({"prop": "C04", "oracle": if e.starts_with("FATAL") { "completes" } else { "error" }, "sql": sql, "what": e}));
                }
                if e.starts_with("FATAL") {
                    tripped.push((q["keys"].clone(), q["aggs"].clone()));
                    rebuilds += 1;
                    let mut stop = rebuilds > 60;
                    if !stop {
                        match rebuild() {
                            Ok(nb) => {
                                let old = std::mem::replace(b, nb);
                                discard(old);
                            }
                            Err(_) => stop = true,
                        }
                    }
                    if stop {
                        for v in vio[vio_before..].iter_mut() {
                            v["panics"] = json!(qpanics);
                        }
                        break;
                    }
                }
            }
        }
        for v in vio[vio_before..].iter_mut() {
            v["panics"] = json!(qpanics);
        }
        if vio.len() > 3000 {
            break;
        }
    }
    (judged, nontrivial)
}

/// C05
#[allow(clippy::too_many_arguments)]
pub fn check_sorts(b: &Built, class: usize, queries: &[Value], limits: &[i64], offsets: &[i64], expected: &[Value], rows: &[Value], vio: &mut Vec<Value>) -> (usize, usize) {
    let mut n = 0;
    let mut nontrivial = 0;
    let by_id: BTreeMap<i64, &Value> = rows.iter().map(|r| (r["id"].as_i64().unwrap(), r)).collect();
    for (qi, q) in queries.iter().enumerate() {
        let keys = q["keys"].as_array().unwrap();
        let exp = &expected[qi];
        let sorted: Vec<i64> = exp["sorted"].as_array().unwrap().iter().map(|x| x.as_i64().unwrap()).collect();
        let rank: Vec<i64> = exp["rank"].as_array().unwrap().iter().map(|x| x.as_i64().unwrap()).collect();
        for (li, &lim) in limits.iter().enumerate() {
            for (oi, &off) in offsets.iter().enumerate() {
                if (qi + li + oi + class) % 2 == 1 && lim >= 0 && off >= 0 {
                    continue; // half of the limit/offset grid per run; the other half under another class
                }
                n += 1;
                let mut sql = "SELECT id FROM t".to_string();
                if q["where"]["k"] != "true" {
                    sql.push_str(&format!(" WHERE {}", render_pred(class, &q["where"], qi)));
                }
                if !keys.is_empty() {
                    sql.push_str(" ORDER BY ");
                    sql.push_str(&keys.iter().map(|k| format!("{}{}", k["c"].as_str().unwrap(), if k["desc"].as_bool().unwrap() { " DESC" } else { "" })).collect::<Vec<_>>().join(", "));
                }
                if lim >= 0 {
                    sql.push_str(&format!(" LIMIT {}", lim));
                }
                if off >= 0 {
                    sql.push_str(&format!(" OFFSET {}", off));
                }
                let w = &exp["windows"][li][oi];
                let (lo, hi) = (w["lo"].as_i64().unwrap(), w["hi"].as_i64().unwrap());
                let want_len = if hi >= lo { (hi - lo + 1) as usize } else { 0 };
                if want_len > 0 && want_len < sorted.len() {
                    nontrivial += 1;
                }
                match run_sql(&b.db, &sql) {
                    Ok(a) => {
                        let got = ids_of(&a, 0);
                        let mut bad: Option<String> = None;
                        if got.len() != want_len {
                            bad = Some(format!("{} rows, specification says rows {}..{} of {} ({} rows)", got.len(), lo, hi, sorted.len(), want_len));
                        } else {
                            // position j of the answer must hold a row whose tie group covers position lo+j
                            let mut seen = std::collections::BTreeSet::new();
                            for (j, id) in got.iter().enumerate() {
                                let pos = (lo as usize - 1) + j; // 0-based position in the full order
                                if !seen.insert(*id) {
                                    bad = Some(format!("row id {} returned twice", id));
                                    break;
                                }
                                match sorted.iter().position(|x| x == id) {
                                    None => {
                                        bad = Some(format!("row id {} is not among the filtered rows", id));
                                        break;
                                    }
                                    Some(p) => {
                                        if rank[p] != rank[pos] {
                                            bad = Some(format!("position {} holds row id {} (rank {}), the specification has a row of rank {} there (order {:?})", j, id, rank[p], rank[pos], sorted));
                                            break;
                                        }
                                    }
                                }
                            }
                            // every row strictly before the cut-off key (tie groups entirely inside the window) is present
                            if bad.is_none() {
                                for (p, id) in sorted.iter().enumerate() {
                                    let r = rank[p] as usize - 1;
                                    let group_end = rank.iter().rposition(|x| *x == rank[p]).unwrap();
                                    if r >= lo as usize - 1 && (group_end as i64) < hi && !seen.contains(id) {
                                        bad = Some(format!("row id {} lies strictly inside the window but is missing", id));
                                        break;
                                    }
                                }
                            }
                        }
                        let _ = &by_id;
                        if let Some(wh) = bad {
                            vio.push(json!({"prop": "C05", "oracle": "order", "sql": sql, "what": wh}));
                        }
                    }
                    Err(e) => {
                        let fatal = e.starts_with("FATAL");
                        vio.push(json!({"prop": "C05", "oracle": if fatal { "completes" } else { "error" }, "sql": sql, "what": e}));
                        if fatal {
                            return (n, nontrivial); // the database may have lost workers: judge nothing further on it
                        }
                    }
                }
                if vio.len() > 200 {
                    return (n, nontrivial);
                }
            }
        }
    }
    (n, nontrivial)
}
