//! Randomised multi-threaded driver (C10 / C11): several ingesting clients, query clients, forced
//! and background flushes, evictions - with the tracer on. Every query answer is checked directly
//! (clean prefix: whole requests, in order, none twice, everything acknowledged before the query
//! started) and the recorded trace is validated against the specification afterwards.
use std::collections::{BTreeMap, HashMap};
use std::sync::atomic::{AtomicBool, AtomicUsize, Ordering};
use std::sync::{Arc, Mutex};
use std::thread;
use std::time::{Duration, Instant};

use rand::rngs::StdRng;
use rand::{Rng, SeedableRng};
use serde_json::{json, Value};

use crate::cells::Cell;
use crate::db::{self, Cfg};
use crate::evbuf::{event_buffer, ColData, TableData};
use crate::util::Outcome;

pub struct StressCfg {
    pub seed: u64,
    pub clients: usize,
    pub queriers: usize,
    pub requests_per_client: usize,
    pub background_flush: bool,
    pub evict: bool,
    pub restarts: usize,
}

const TABLES: [&str; 2] = ["ta", "tb"];

/// rows of request (client, seq) for table t: token columns client / seq / idx plus a payload column
fn request(client: usize, seq: usize, rng: &mut StdRng) -> Vec<TableData> {
    let mut out = vec![];
    let both = rng.random_range(0..4) == 0;
    let first = rng.random_range(0..2);
    for (k, t) in TABLES.iter().enumerate() {
        if !(both || k == first) {
            continue;
        }
        let n = rng.random_range(1..4usize);
        let mut cols = vec![
            ("client".to_string(), ColData::I64(vec![client as i64; n])),
            ("seq".to_string(), ColData::I64(vec![seq as i64; n])),
            ("idx".to_string(), ColData::I64((0..n as i64).collect())),
        ];
        if rng.random_range(0..2) == 0 {
            cols.push((format!("p{}", rng.random_range(0..3)), ColData::Dense((0..n).map(|i| (seq * 10 + i) as f64 + 0.5).collect())));
        }
        out.push(TableData { name: t.to_string(), len: n as u64, cols });
    }
    out
}

#[derive(Default)]
struct Shared {
    /// per table: requests (client, seq, rows) acknowledged so far, in acknowledgement order as seen by the clients
    acked: Mutex<HashMap<String, Vec<(i64, i64, usize)>>>,
    violations: Mutex<Vec<Value>>,
    queries: AtomicUsize,
    ingests: AtomicUsize,
    flushes: AtomicUsize,
}

/// the clean-prefix oracle on one answer of `SELECT client, seq, idx FROM t`
fn check_answer(t: &str, rows: &[Vec<Cell>], acked_before: &[(i64, i64, usize)], sizes: &HashMap<(String, i64, i64), usize>) -> Result<(), String> {
    let mut seen: BTreeMap<(i64, i64), Vec<i64>> = BTreeMap::new();
    let mut order: Vec<(i64, i64)> = vec![];
    for r in rows {
        let (c, s, i) = match (&r[0], &r[1], &r[2]) {
            (Cell::Int(c), Cell::Int(s), Cell::Int(i)) => (*c, *s, *i),
            _ => return Err(format!("token row with NULL / wrong type: {:?}", r)),
        };
        if order.last() != Some(&(c, s)) {
            if seen.contains_key(&(c, s)) {
                return Err(format!("rows of request ({},{}) are not contiguous", c, s));
            }
            order.push((c, s));
        }
        seen.entry((c, s)).or_default().push(i);
    }
    for ((c, s), idxs) in &seen {
        let n = *sizes.get(&(t.to_string(), *c, *s)).ok_or_else(|| format!("rows of an unknown request ({},{})", c, s))?;
        let want: Vec<i64> = (0..n as i64).collect();
        if idxs != &want {
            return Err(format!("request ({},{}) has {} rows in table {}: answer shows indices {:?} (split, lost or duplicated rows)", c, s, n, t, idxs));
        }
    }
    // per client the requests appear in issue order
    let mut last: HashMap<i64, i64> = HashMap::new();
    for (c, s) in &order {
        if let Some(p) = last.get(c) {
            if s <= p {
                return Err(format!("client {}: request {} appears after request {}", c, s, p));
            }
        }
        last.insert(*c, *s);
    }
    // everything acknowledged before the query started is there
    for (c, s, _) in acked_before {
        if !seen.contains_key(&(*c, *s)) {
            return Err(format!("request ({},{}) was acknowledged before the query started but is missing from the answer", c, s));
        }
    }
    // the answer is a prefix of the table's history: a client's requests have no gaps
    for (c, &mx) in &last {
        let have: Vec<i64> = order.iter().filter(|(cc, _)| cc == c).map(|(_, s)| *s).collect();
        let all: Vec<i64> = sizes.keys().filter(|(tt, cc, s)| tt == t && cc == c && *s <= mx).map(|(_, _, s)| *s).collect();
        if have.len() != all.len() {
            return Err(format!("client {}: answer has requests {:?} but the client issued {} requests up to {} into {}", c, have, all.len(), mx, t));
        }
    }
    Ok(())
}

pub fn run(sc: &StressCfg, cfg: &Cfg, dir: &std::path::Path) -> Value {
    let shared = Arc::new(Shared::default());
    let sizes: Arc<Mutex<HashMap<(String, i64, i64), usize>>> = Arc::new(Mutex::new(HashMap::new()));
    let mut cfg = cfg.clone();
    if sc.background_flush {
        cfg.max_wal_files = 2;
        cfg.max_wal_size_bytes = 2000;
    }
    let mut total_restarts = 0;
    let mut seq_base = 0usize;
    for epoch in 0..=sc.restarts {
        let db = match db::open(Some(dir), &cfg) {
            Outcome::Done(d) => d,
            o => {
                shared.violations.lock().unwrap().push(json!({"prop": "C08", "oracle": "reopen", "what": o.describe()}));
                break;
            }
        };
        let stop = Arc::new(AtomicBool::new(false));
        let mut handles = vec![];
        for c in 0..sc.clients {
            let (db, shared, sizes) = (db.clone(), shared.clone(), sizes.clone());
            let mut rng = StdRng::seed_from_u64(sc.seed * 1000 + (epoch * 100 + c) as u64);
            let n = sc.requests_per_client;
            handles.push(thread::spawn(move || {
                for k in 0..n {
                    let seq = seq_base + k;
                    let req = request(c, seq, &mut rng);
                    {
                        let mut sz = sizes.lock().unwrap();
                        for t in &req {
                            sz.insert((t.name.clone(), c as i64, seq as i64), t.len as usize);
                        }
                    }
                    match db::ingest(&db, event_buffer(&req)) {
                        Outcome::Done(()) => {
                            let mut a = shared.acked.lock().unwrap();
                            for t in &req {
                                a.entry(t.name.clone()).or_default().push((c as i64, seq as i64, t.len as usize));
                            }
                            shared.ingests.fetch_add(1, Ordering::SeqCst);
                        }
                        o => {
                            shared.violations.lock().unwrap().push(json!({"prop": "C11", "oracle": "op-completes", "what": format!("ingest -> {}", o.describe())}));
                            return;
                        }
                    }
                    if rng.random_range(0..3) == 0 {
                        thread::sleep(Duration::from_micros(rng.random_range(0..400)));
                    }
                }
            }));
        }
        let mut aux = vec![];
        for q in 0..sc.queriers {
            let (db, shared, sizes, stop) = (db.clone(), shared.clone(), sizes.clone(), stop.clone());
            let mut rng = StdRng::seed_from_u64(sc.seed * 7777 + (epoch * 100 + q) as u64);
            aux.push(thread::spawn(move || {
                while !stop.load(Ordering::SeqCst) {
                    let t = TABLES[rng.random_range(0..2)];
                    let before: Vec<(i64, i64, usize)> = shared.acked.lock().unwrap().get(t).cloned().unwrap_or_default();
                    let sql = format!("SELECT client, seq, idx FROM {}", t);
                    match db::query(&db, &sql) {
                        Outcome::Done(Ok(a)) => {
                            shared.queries.fetch_add(1, Ordering::SeqCst);
                            let sz = sizes.lock().unwrap().clone();
                            if let Err(e) = check_answer(t, &a.rows, &before, &sz) {
                                shared.violations.lock().unwrap().push(json!({"prop": "C10", "oracle": "clean-prefix", "what": format!("{}: {}", sql, e)}));
                                return;
                            }
                        }
                        Outcome::Done(Err(e)) => {
                            if !(e.contains("does not exist") && before.is_empty()) {
                                shared.violations.lock().unwrap().push(json!({"prop": "C10", "oracle": "query-fails", "what": format!("{} failed during concurrent activity: {}", sql, e)}));
                                return;
                            }
                        }
                        o => {
                            shared.violations.lock().unwrap().push(json!({"prop": "C10", "oracle": "query-completes", "what": format!("{} -> {}", sql, o.describe())}));
                            return;
                        }
                    }
                    thread::sleep(Duration::from_micros(rng.random_range(0..300)));
                }
            }));
        }
        {
            let (db, shared, stop) = (db.clone(), shared.clone(), stop.clone());
            let mut rng = StdRng::seed_from_u64(sc.seed * 31 + epoch as u64);
            let evict = sc.evict;
            aux.push(thread::spawn(move || {
                while !stop.load(Ordering::SeqCst) {
                    thread::sleep(Duration::from_micros(rng.random_range(200..3000)));
                    if evict && rng.random_range(0..2) == 0 {
                        let _ = db::evict(&db);
                    } else {
                        match db::flush(&db) {
                            Outcome::Done(()) => {
                                shared.flushes.fetch_add(1, Ordering::SeqCst);
                            }
                            o => {
                                shared.violations.lock().unwrap().push(json!({"prop": "C11", "oracle": "op-completes", "what": format!("force_flush -> {}", o.describe())}));
                                return;
                            }
                        }
                    }
                }
            }));
        }
        for h in handles {
            let _ = h.join();
        }
        stop.store(true, Ordering::SeqCst);
        for h in aux {
            let _ = h.join();
        }
        seq_base += sc.requests_per_client;
        // final check of the epoch with nothing running
        if shared.violations.lock().unwrap().is_empty() {
            for t in TABLES {
                let before: Vec<(i64, i64, usize)> = shared.acked.lock().unwrap().get(t).cloned().unwrap_or_default();
                if before.is_empty() {
                    continue;
                }
                if let Outcome::Done(Ok(a)) = db::query(&db, &format!("SELECT client, seq, idx FROM {}", t)) {
                    let sz = sizes.lock().unwrap().clone();
                    let total: usize = before.iter().map(|x| x.2).sum();
                    if let Err(e) = check_answer(t, &a.rows, &before, &sz) {
                        shared.violations.lock().unwrap().push(json!({"prop": "C10", "oracle": "clean-prefix", "what": format!("final {}: {}", t, e)}));
                    } else if a.rows.len() != total {
                        shared.violations.lock().unwrap().push(json!({"prop": "C07", "oracle": "content", "what": format!("final {}: {} rows, {} acknowledged", t, a.rows.len(), total)}));
                    }
                }
            }
        }
        // quiesce before closing: the flush thread must be idle so that the old instance writes nothing more
        let t0 = Instant::now();
        let _ = db::flush(&db);
        drop(db);
        locustdb::verif::wait_all_stopped(Duration::from_secs(5));
        let _ = t0;
        if !shared.violations.lock().unwrap().is_empty() {
            break;
        }
        total_restarts += 1;
    }
    let v = shared.violations.lock().unwrap().clone();
    json!({"seed": sc.seed, "ingests": shared.ingests.load(Ordering::SeqCst), "queries": shared.queries.load(Ordering::SeqCst),
           "flushes": shared.flushes.load(Ordering::SeqCst), "epochs": total_restarts, "violations": v})
}
