//! C14: the corruption classes of Blob.tla realised on real files of all three kinds (log segment, partition
//! file, catalogue), loaded through the real envelope reader and through LocustDB::new / a query; and
//! round trips of the three serialisers over enumerated shapes.
use std::path::{Path, PathBuf};

use locustdb::disk_store::meta_store::{MetaStore, PartitionMetadata, SubpartitionMetadata};
use locustdb::disk_store::wal_segment::WalSegment;

use locustdb::verif_api as api;
use locustdb::Value as RawVal;
use serde_json::{json, Value};

use crate::cells::Cell;
use crate::db::{self, Cfg};
use crate::evbuf::{event_buffer, ColData, TableData};
use crate::util::{copy_dir, list_files, Outcome};

fn workload(dir: &Path) -> Result<(), String> {
    let cfg = Cfg { combine_factor: 999, ..Cfg::default() };
    let db = db::open(Some(dir), &cfg).done().ok_or("open")?;
    let mk = |seq: i64| {
        vec![
            TableData {
                name: "ta".into(),
                len: 3,
                cols: vec![
                    ("a".into(), ColData::I64(vec![seq, seq + 1, seq + 2])),
                    ("f".into(), ColData::Dense(vec![0.5, -0.0, 1e300])),
                    ("s".into(), ColData::Str(vec!["x".into(), "".into(), "ünï".into()])),
                    ("n".into(), ColData::SparseI64(vec![(1, 7)])),
                ],
            },
            TableData { name: "tb".into(), len: 1, cols: vec![("b".into(), ColData::I64(vec![seq * 100]))] },
        ]
    };
    db::ingest(&db, event_buffer(&mk(10))).done().ok_or("ingest")?;
    db::flush(&db).done().ok_or("flush")?;
    db::ingest(&db, event_buffer(&mk(20))).done().ok_or("ingest")?;
    drop(db);
    Ok(())
}

fn content(db: &std::sync::Arc<locustdb::LocustDB>) -> Result<Vec<Vec<Vec<Cell>>>, String> {
    let mut out = vec![];
    for sql in ["SELECT a, f, s, n FROM ta", "SELECT b FROM tb"] {
        match db::query(db, sql) {
            Outcome::Done(Ok(a)) => out.push(a.rows),
            Outcome::Done(Err(e)) => return Err(format!("ERR {}", e)),
            o => return Err(format!("FATAL {}", o.describe())),
        }
    }
    Ok(out)
}

/// (description, corrupted bytes)
pub fn corruptions(orig: &[u8], all_bits: bool) -> Vec<(String, Vec<u8>)> {
    let n = orig.len();
    let mut out = vec![];
    let regions = [("version", 0usize, 8usize), ("length", 8, 16), ("checksum", 16, 48), ("payload", 48, n)];
    for (name, lo, hi) in regions {
        if hi <= lo {
            continue;
        }
        let positions: Vec<usize> = if all_bits { (lo..hi).collect() } else { vec![lo, (lo + hi) / 2, hi - 1] };
        for p in positions {
            let bits: Vec<u8> = if all_bits { (0..8).collect() } else { vec![0, 7] };
            for b in bits {
                let mut c = orig.to_vec();
                c[p] ^= 1 << b;
                out.push((format!("flip {} byte {} bit {}", name, p, b), c));
            }
        }
    }
    let cuts: Vec<usize> = if all_bits { (0..n).collect() } else { vec![0, 1, 7, 8, 9, 15, 16, 17, 47, 48, 49, n / 2, n.saturating_sub(1)] };
    for c in cuts {
        if c < n {
            out.push((format!("cut to {} of {} bytes", c, n), orig[..c].to_vec()));
        }
    }
    for k in [1usize, 48] {
        let mut c = orig.to_vec();
        c.extend(std::iter::repeat(0xA5u8).take(k));
        out.push((format!("append {} bytes", k), c));
    }
    out.push(("foreign: empty file".into(), vec![]));
    out.push(("foreign: 100 bytes of text".into(), b"this file was not written by the database ".repeat(3)[..100].to_vec()));
    out.push(("foreign: the payload without its envelope".into(), orig[48.min(n)..].to_vec()));
    out
}

pub fn run(all_bits: bool, db_level: bool) -> Value {
    crate::util::take_panics();
    let mut vio: Vec<Value> = vec![];
    let base = tempfile::tempdir().expect("tempdir");
    let dbdir = base.path().join("db");
    std::fs::create_dir_all(&dbdir).unwrap();
    if let Err(e) = workload(&dbdir) {
        return json!({"violations": [{"prop": "C14", "oracle": "machinery", "what": e}]});
    }
    let files = list_files(&dbdir);
    let kinds: Vec<(&str, String)> = vec![
        ("log segment", files.iter().find(|f| f.starts_with("wal/")).cloned().unwrap_or_default()),
        ("partition file", files.iter().find(|f| f.starts_with("tables/ta/")).cloned().unwrap_or_default()),
        ("catalogue", "meta".to_string()),
    ];
    let cfg = Cfg { combine_factor: 999, ..Cfg::default() };
    let reference = {
        let d = base.path().join("ref");
        copy_dir(&dbdir, &d).unwrap();
        let db = db::open(Some(&d), &cfg).done().expect("open reference");
        content(&db).expect("reference content")
    };
    let (mut blob_loads, mut db_opens, mut rejected, mut identical) = (0usize, 0usize, 0usize, 0usize);
    for (kind, rel) in &kinds {
        if rel.is_empty() {
            vio.push(json!({"prop": "C14", "oracle": "machinery", "what": format!("no {} produced by the workload: {:?}", kind, files)}));
            continue;
        }
        let orig = std::fs::read(dbdir.join(rel)).unwrap();
        let payload = api::blob_load(&dbdir.join(rel)).expect("load original");
        for (ci, (desc, bytes)) in corruptions(&orig, all_bits).into_iter().enumerate() {
            // 1. the envelope reader
            let p: PathBuf = base.path().join("blob.tmp");
            std::fs::write(&p, &bytes).unwrap();
            blob_loads += 1;
            match api::blob_load(&p) {
                Err(_) => rejected += 1,
                Ok(got) if got == payload => identical += 1,
                Ok(got) => vio.push(json!({"prop": "C14", "oracle": "envelope", "file": kind, "corruption": desc, "what": format!("a corrupted {} was decoded into {} bytes of different data", kind, got.len())})),
            }
            // 2. the database on a directory that contains the corrupted file
            if db_level && (!all_bits || ci % 97 == 0) {
                let d = base.path().join(format!("c_{}", ci));
                copy_dir(&dbdir, &d).unwrap();
                std::fs::write(d.join(rel), &bytes).unwrap();
                db_opens += 1;
                crate::util::take_panics();
                match db::open(Some(&d), &cfg) {
                    Outcome::Panicked(_) => {} // a refusal that reaches the caller
                    Outcome::TimedOut => vio.push(json!({"prop": "C14", "oracle": "open-terminates", "file": kind, "corruption": desc,
                        "what": format!("opening a database with a corrupted {} neither fails nor returns | panics {:?}", kind, crate::util::take_panics().iter().take(1).collect::<Vec<_>>())})),
                    Outcome::Done(db) => match content(&db) {
                        Ok(c) if c == reference => {}
                        Ok(c) => vio.push(json!({"prop": "C14", "oracle": "different-data", "file": kind, "corruption": desc, "what": format!("the database opened on a corrupted {} and returns different content: {:?}", kind, c.iter().map(|t| t.len()).collect::<Vec<_>>())})),
                        Err(e) if e.starts_with("FATAL") && !e.contains("panic") && !e.contains("Canceled") => {
                            vio.push(json!({"prop": "C14", "oracle": "query-terminates", "file": kind, "corruption": desc, "what": e}));
                            std::mem::forget(db);
                        }
                        Err(_) => {
                            // the read was refused; a table that is not affected is still served
                            if *kind == "partition file" {
                                match db::query(&db, "SELECT b FROM tb") {
                                    Outcome::Done(Ok(_)) => {}
                                    o => {
                                        vio.push(json!({"prop": "C14", "oracle": "still-serving", "file": kind, "corruption": desc,
                                            "what": format!("after a refused read of a corrupted partition file of table ta, a query on table tb: {:?} | panics {:?}", o.describe(), crate::util::take_panics().iter().take(1).collect::<Vec<_>>())}));
                                        std::mem::forget(db);
                                    }
                                }
                            }
                        }
                    },
                }
                let _ = std::fs::remove_dir_all(&d);
            }
            if vio.len() > 60 {
                break;
            }
        }
    }
    json!({"blob_loads": blob_loads, "db_opens": db_opens, "rejected": rejected, "identical": identical, "violations": vio, "panics": crate::util::take_panics().iter().take(3).collect::<Vec<_>>()})
}

/// round trips of the three serialisers
pub fn roundtrips() -> Value {
    let mut vio: Vec<Value> = vec![];
    let mut n = 0usize;
    // (a) log segments / event buffers: every ColumnData variant, len >= data length
    let variants: Vec<ColData> = vec![
        ColData::Dense(vec![0.5, -0.0, f64::INFINITY]), ColData::Sparse(vec![(0, 1.5), (2, -2.5)]), ColData::I64(vec![i64::MIN, 0, i64::MAX - 1]),
        ColData::SparseI64(vec![(1, 7)]), ColData::Str(vec!["".into(), "ünï".into(), "x".repeat(300)]), ColData::Empty,
        ColData::Mixed(vec![Cell::Int(1), Cell::Float(2.5), Cell::Str("s".into()), Cell::Null]), ColData::Dense(vec![]), ColData::I64(vec![]), ColData::Str(vec![]),
    ];
    for (i, v) in variants.iter().enumerate() {
        for id in [0u64, 1, 1 << 32, u64::MAX] {
            n += 1;
            let t = TableData { name: format!("t{}", i), len: 4, cols: vec![("c".into(), v.clone()), ("d".into(), ColData::I64(vec![1, 2, 3, 4]))] };
            let ev = event_buffer(&[t]);
            let seg = WalSegment { id, data: std::borrow::Cow::Owned(ev.clone()) };
            let bytes = seg.serialize();
            match std::panic::catch_unwind(|| WalSegment::deserialize(&bytes)) {
                Ok(Ok(back)) => {
                    if back.id != id || format!("{:?}", back.data) != format!("{:?}", ev) {
                        // HashMap order may differ: compare per table/column
                        let same = back.id == id && back.data.tables.len() == ev.tables.len() && ev.tables.iter().all(|(k, tb)| {
                            back.data.tables.get(k).map(|b| b.len() == tb.len() && tb.columns().all(|(cn, c)| b.columns().any(|(bn, bc)| bn == cn && format!("{:?}", bc.data) == format!("{:?}", c.data)))).unwrap_or(false)
                        });
                        if !same {
                            vio.push(json!({"prop": "C14", "oracle": "roundtrip-wal", "what": format!("variant {} id {} does not read back as written", i, id)}));
                        }
                    }
                }
                other => vio.push(json!({"prop": "C14", "oracle": "roundtrip-wal", "what": format!("variant {} id {}: deserialize failed {:?}", i, id, other.map(|r| r.map(|_| ())))})),
            }
        }
    }
    // (b) catalogue shapes
    for ntables in 0..3usize {
        for nsub in 1..4usize {
            for cursor in [0u64, 1, 1 << 32] {
                n += 1;
                let mut ms = MetaStore::default();
                for t in 0..ntables {
                    for p in 0..2u64 {
                        let subs: Vec<SubpartitionMetadata> = (0..nsub).map(|k| SubpartitionMetadata { size_bytes: 10 + k as u64, subpartition_key: if nsub == 1 { "all".into() } else { format!("k{}", k) },
                            last_column: format!("col{}", k), loaded: std::sync::Arc::new(std::sync::atomic::AtomicBool::new(true)) }).collect();
                        let by_last = subs.iter().enumerate().map(|(i, s)| (s.last_column.clone(), i)).collect();
                        ms.insert_partition(PartitionMetadata { id: p, tablename: format!("tä{}", t), offset: (p * 5) as usize, len: 5, subpartitions: subs, subpartitions_by_last_column: by_last });
                    }
                }
                ms.advance_earliest_unflushed_wal_id(cursor);
                let bytes = api::metastore_serialize(&ms);
                match MetaStore::deserialize(&bytes) {
                    Ok(back) => {
                        let sig = |m: &MetaStore| {
                            let mut v: Vec<String> = m.partitions().map(|p| format!("{}/{}/{}/{}/{:?}", p.tablename, p.id, p.offset, p.len,
                                p.subpartitions.iter().map(|s| (s.subpartition_key.clone(), s.last_column.clone(), s.size_bytes)).collect::<Vec<_>>())).collect();
                            v.sort();
                            (m.earliest_uncommited_wal_id(), v)
                        };
                        if sig(&back) != sig(&ms) {
                            vio.push(json!({"prop": "C14", "oracle": "roundtrip-meta", "what": format!("{} tables, {} sub-partitions, cursor {}: {:?} != {:?}", ntables, nsub, cursor, sig(&back), sig(&ms))}));
                        }
                    }
                    Err(e) => vio.push(json!({"prop": "C14", "oracle": "roundtrip-meta", "what": format!("deserialize failed: {}", e)})),
                }
            }
        }
    }
    // (c) partition segments: every column shape the builders produce for the C01 value classes
    for class in 0..crate::c01::NUM_CLASSES {
        for kind in ["i", "f", "s"] {
            for nullable in [false, true] {
                for len in [1usize, 9, 300] {
                    n += 1;
                    let mut pushes = vec![];
                    let mut want: Vec<RawVal> = vec![];
                    for r in 0..len {
                        if nullable && r % 3 == 1 {
                            pushes.push(api::Push::Nulls(1));
                            want.push(RawVal::Null);
                            continue;
                        }
                        let c = crate::c01::gamma(class, kind, 1, 1, r);
                        let v = match c {
                            Cell::Int(i) => RawVal::Int(i),
                            Cell::Float(f) => RawVal::Float(f.into()),
                            Cell::Str(s) => RawVal::Str(s),
                            Cell::Null => RawVal::Null,
                        };
                        want.push(v.clone());
                        pushes.push(api::Push::Val(v));
                    }
                    let col = api::build_column("c", pushes);
                    let bytes = api::partition_segment_serialize(&[&col]);
                    match api::partition_segment_deserialize(&bytes) {
                        Ok(cols) if cols.len() == 1 => {
                            if api::column_to_json(&cols[0]) != api::column_to_json(&col) {
                                vio.push(json!({"prop": "C14", "oracle": "roundtrip-partition", "what": format!("class {} kind {} nullable {} len {}: column {} does not read back identically", class, kind, nullable, len, api::column_signature(&col))}));
                            }
                        }
                        other => vio.push(json!({"prop": "C14", "oracle": "roundtrip-partition", "what": format!("deserialize: {:?}", other.map(|c| c.len()))})),
                    }
                    let _ = want;
                }
            }
        }
    }
    json!({"roundtrips": n, "violations": vio})
}
