//! C15: cases of Subpartition.tla replayed against the real subpartition() / routing (through verif_api and the
//! public metastore types) and end to end (ingest, flush with the size limit, restart, SELECT every pool name).
use std::collections::BTreeMap;
use std::sync::atomic::AtomicBool;
use std::sync::Arc;

use locustdb::disk_store::meta_store::{PartitionMetadata, SubpartitionMetadata};
use locustdb::verif_api as api;
use serde::Deserialize;
use serde_json::{json, Value};

use crate::cells::Cell;
use crate::db::{self, Cfg};
use crate::evbuf::{event_buffer, ColData, TableData};
use crate::util::Outcome;

#[derive(Debug, Clone, Deserialize)]
pub struct Case {
    pub cols: Vec<usize>,
    pub sizes: Vec<u64>,
    pub limit: u64,
    pub groups: Vec<Vec<usize>>,
    pub routes: Vec<usize>,
}

pub const N: usize = 64;

pub fn pool() -> Vec<String> {
    let v = vec![
        "0first".to_string(),
        "Alpha".to_string(),
        "alpha".to_string(),
        "alpha_x".to_string(),
        format!("long_{}", "abcdefghij".repeat(7)),
        "zz_last".to_string(),
        "ünï".to_string(),
    ];
    let mut s = v.clone();
    s.sort();
    assert_eq!(s, v, "pool must be in byte order");
    v
}

fn values(name_idx: usize, size: u64) -> Vec<i64> {
    // incompressible, so that neither lz4 nor pco is chosen: 2 bytes per row (u16) or 8 bytes per row (i64)
    let mut x = (name_idx as u64 + 1).wrapping_mul(0x9E3779B97F4A7C15);
    (0..N)
        .map(|_| {
            x ^= x << 13;
            x ^= x >> 7;
            x ^= x << 17;
            if size == 2 {
                (x % 65536) as i64
            } else {
                (x >> 1) as i64 - (1i64 << 62)
            }
        })
        .collect()
}

pub fn unit(case: &Case) -> Vec<Value> {
    let names = pool();
    let mut vio = vec![];
    let cols: Vec<Arc<locustdb::disk_store::verif_reexport::PartitionSegment>> = vec![];
    let _ = cols;
    let built: Vec<_> = case.cols.iter().zip(&case.sizes).map(|(c, s)| api::build_column(&names[*c - 1], vec![api::Push::Ints(values(*c, *s))])).collect();
    for (b, s) in built.iter().zip(&case.sizes) {
        let real = b.heap_size_of_children() as u64;
        if real != s * N as u64 {
            return vec![json!({"prop": "C15", "oracle": "machinery", "what": format!("column size {} is not {} x {} (codec {})", real, s, N, api::column_signature(b))})];
        }
    }
    let limit = if case.limit >= 1000 { u64::MAX / 4 } else { case.limit * N as u64 };
    let real = api::subpartition(limit, built);
    let real_groups: Vec<Vec<usize>> = real.iter().map(|(_, _, cs)| cs.iter().map(|n| names.iter().position(|x| x == n).unwrap() + 1).collect()).collect();
    if real_groups != case.groups {
        vio.push(json!({"prop": "C15", "oracle": "split", "what": format!("real split {:?}, specification {:?}", real_groups, case.groups)}));
        return vio;
    }
    let keys: Vec<&String> = real.iter().map(|(k, _, _)| k).collect();
    let mut uniq = keys.clone();
    uniq.sort();
    uniq.dedup();
    if uniq.len() != keys.len() {
        vio.push(json!({"prop": "C15", "oracle": "keys", "what": format!("file keys are not distinct: {:?}", keys)}));
    }
    for k in &keys {
        let f = api::partition_filename(7, k);
        if f.contains('/') || f.contains("..") || f.len() > 255 {
            vio.push(json!({"prop": "C15", "oracle": "filename", "what": format!("unsafe file name {:?}", f)}));
        }
    }
    // routing through the real metadata type
    let mut by_last = BTreeMap::new();
    let subs: Vec<SubpartitionMetadata> = real
        .iter()
        .enumerate()
        .map(|(i, (k, last, _))| {
            by_last.insert(last.clone(), i);
            SubpartitionMetadata { size_bytes: 1, subpartition_key: k.clone(), last_column: last.clone(), loaded: Arc::new(AtomicBool::new(false)) }
        })
        .collect();
    let md = PartitionMetadata { id: 7, tablename: "t".into(), offset: 0, len: N, subpartitions: subs, subpartitions_by_last_column: by_last };
    for (i, name) in names.iter().enumerate() {
        let got = md.subpartition_key(name).map(|k| keys.iter().position(|x| **x == k).unwrap() + 1).unwrap_or(0);
        if got != case.routes[i] {
            vio.push(json!({"prop": "C15", "oracle": "route", "what": format!("column {:?} is looked up in file {} ({:?}), specification says {}", name, got, md.subpartition_key(name), case.routes[i])}));
        }
    }
    vio
}

pub fn end_to_end(case: &Case, table: &str) -> Vec<Value> {
    let names = pool();
    let mut vio = vec![];
    let dir = tempfile::tempdir().expect("tempdir");
    let limit = if case.limit >= 1000 { 8 * 1024 * 1024 } else { case.limit * N as u64 };
    let cfg = Cfg { combine_factor: 999, max_partition_size_bytes: limit, ..Cfg::default() };
    let db = match db::open(Some(dir.path()), &cfg) {
        Outcome::Done(d) => d,
        o => return vec![json!({"prop": "C11", "oracle": "open", "what": o.describe()})],
    };
    let cols: Vec<(String, ColData)> = case.cols.iter().zip(&case.sizes).map(|(c, s)| (names[*c - 1].clone(), ColData::I64(values(*c, *s)))).collect();
    let _ = db::ingest(&db, event_buffer(&[TableData { name: table.to_string(), len: N as u64, cols }]));
    if !matches!(db::flush(&db), Outcome::Done(())) {
        return vec![json!({"prop": "C07", "oracle": "flush", "what": "force_flush failed"})];
    }
    drop(db);
    let db = match db::open(Some(dir.path()), &cfg) {
        Outcome::Done(d) => d,
        o => return vec![json!({"prop": "C08", "oracle": "reopen", "what": o.describe()})],
    };
    // every pool name on its own (a cold read each), in an order that starts with the absent ones
    let mut order: Vec<usize> = (1..=names.len()).collect();
    order.sort_by_key(|i| case.cols.contains(i));
    for i in order {
        let sql = format!("SELECT \"{}\" FROM \"{}\"", names[i - 1], table);
        match db::query(&db, &sql) {
            Outcome::Done(Ok(a)) => {
                let want: Vec<Cell> = match case.cols.iter().position(|c| *c == i) {
                    Some(p) => values(i, case.sizes[p]).into_iter().map(Cell::Int).collect(),
                    None => vec![Cell::Null; N],
                };
                let got: Vec<Cell> = a.rows.iter().map(|r| r[0].clone()).collect();
                if got != want {
                    let first = got.iter().zip(&want).position(|(g, w)| g != w);
                    vio.push(json!({"prop": "C15", "oracle": "read-back", "sql": sql, "what": format!("{} rows; first difference at {:?}: got {:?}, written {:?}", got.len(), first, first.map(|p| got[p].short()), first.map(|p| want[p].short()))}));
                }
            }
            Outcome::Done(Err(e)) => vio.push(json!({"prop": "C15", "oracle": "read-back", "sql": sql, "what": e})),
            o => {
                vio.push(json!({"prop": "C11", "oracle": "completes", "sql": sql, "what": o.describe()}));
                std::mem::forget(db);
                return vio;
            }
        }
    }
    // files: nothing outside the table's directory
    let san = api::sanitize_table_name(table);
    for f in crate::util::list_files(dir.path()) {
        if f.starts_with("tables/") && !f.starts_with("tables/_meta") && !f.starts_with("tables/-_meta") && !f.starts_with(&format!("tables/{}/", san)) {
            vio.push(json!({"prop": "C15", "oracle": "files", "what": format!("file {:?} is outside the directory of table {:?} ({:?})", f, table, san)}));
        }
    }
    vio
}

pub fn table_names() -> Vec<String> {
    vec!["t", "T", "tb.l", "a/b", "../x", "..", ".", "", "-x", "ünï", "t ", "00000_all.part", "CON", "a\\b", "a\0b", "table_with_a_name_that_is_far_too_long_"]
        .into_iter()
        .map(|s| s.to_string())
        .chain(std::iter::once("x".repeat(300)))
        .chain(std::iter::once("X".repeat(300)))
        .collect()
}

/// sanitize_table_name: distinct table names never share a directory; no component leaves tables/
pub fn sanitize_checks() -> Vec<Value> {
    let mut vio = vec![];
    let names = table_names();
    let mut seen: BTreeMap<String, String> = BTreeMap::new();
    for n in &names {
        let s = api::sanitize_table_name(n);
        if s.is_empty() || s.contains('/') || s.contains('\\') || s == "." || s == ".." || s.starts_with('.') || s.len() > 255 || s.contains('\0') {
            vio.push(json!({"prop": "C15", "oracle": "sanitize", "what": format!("table name {:?} maps to unsafe directory name {:?}", n, s)}));
        }
        if let Some(other) = seen.insert(s.to_lowercase(), n.clone()) {
            vio.push(json!({"prop": "C15", "oracle": "sanitize", "what": format!("table names {:?} and {:?} share the directory {:?} (case-insensitively)", other, n, s)}));
        }
    }
    vio
}
