//! Builds `EventBuffer`s through the wire schema, so that every `ColumnData` variant and any
//! `len` / data-length combination can be produced (the Rust constructors refuse sparse columns).
use locustdb_serialization::event_buffer::EventBuffer;
use locustdb_serialization::wal_segment_capnp;

use crate::cells::Cell;

#[derive(Debug, Clone)]
pub enum ColData {
    Dense(Vec<f64>),
    Sparse(Vec<(u64, f64)>),
    I64(Vec<i64>),
    SparseI64(Vec<(u64, i64)>),
    Str(Vec<String>),
    Empty,
    Mixed(Vec<Cell>),
}

#[derive(Debug, Clone)]
pub struct TableData {
    pub name: String,
    pub len: u64,
    pub cols: Vec<(String, ColData)>,
}

pub fn serialize(tables: &[TableData]) -> Vec<u8> {
    let mut builder = capnp::message::Builder::new_default();
    {
        let tsl = builder.init_root::<wal_segment_capnp::table_segment_list::Builder>();
        let mut data = tsl.init_data(tables.len() as u32);
        for (i, t) in tables.iter().enumerate() {
            let mut tb = data.reborrow().get(i as u32);
            tb.set_len(t.len);
            tb.set_name(&t.name[..]);
            let mut cols = tb.reborrow().init_columns(t.cols.len() as u32);
            for (j, (cname, cd)) in t.cols.iter().enumerate() {
                let mut cb = cols.reborrow().get(j as u32);
                cb.set_name(&cname[..]);
                match cd {
                    ColData::Dense(v) => cb.get_data().set_f64(&v[..]).unwrap(),
                    ColData::Sparse(v) => {
                        let mut sb = cb.get_data().init_sparse_f64();
                        let (idx, vals): (Vec<u64>, Vec<f64>) = v.iter().cloned().unzip();
                        sb.reborrow().set_indices(&idx[..]).unwrap();
                        sb.reborrow().set_values(&vals[..]).unwrap();
                    }
                    ColData::I64(v) => cb.get_data().set_i64(&v[..]).unwrap(),
                    ColData::SparseI64(v) => {
                        let mut sb = cb.get_data().init_sparse_i64();
                        let (idx, vals): (Vec<u64>, Vec<i64>) = v.iter().cloned().unzip();
                        sb.reborrow().set_indices(&idx[..]).unwrap();
                        sb.reborrow().set_values(&vals[..]).unwrap();
                    }
                    ColData::Str(v) => {
                        let mut l = cb.get_data().init_string(v.len() as u32);
                        for (k, s) in v.iter().enumerate() {
                            l.set(k as u32, &s[..]);
                        }
                    }
                    ColData::Empty => cb.get_data().set_empty(()),
                    ColData::Mixed(v) => {
                        let mut mb = cb.get_data().init_mixed(v.len() as u32);
                        for (k, c) in v.iter().enumerate() {
                            let mut vb = mb.reborrow().get(k as u32).init_value();
                            match c {
                                Cell::Int(i) => vb.set_i64(*i),
                                Cell::Float(f) => vb.set_f64(*f),
                                Cell::Str(s) => vb.set_string(&s[..]),
                                Cell::Null => vb.set_null(()),
                            }
                        }
                    }
                }
            }
        }
    }
    let mut buf = Vec::new();
    capnp::serialize_packed::write_message(&mut buf, &builder).unwrap();
    buf
}

pub fn event_buffer(tables: &[TableData]) -> EventBuffer {
    EventBuffer::deserialize(&serialize(tables)).expect("deserialize own event buffer")
}

/// Chooses a wire representation for a column of cells (homogeneous int / float / string, with
/// NULLs): dense when there is no NULL, sparse for numbers, `Mixed` otherwise.
pub fn col_from_cells(cells: &[Cell]) -> ColData {
    let nn: Vec<&Cell> = cells.iter().filter(|c| !c.is_null()).collect();
    if nn.is_empty() {
        return ColData::Empty;
    }
    let all_int = nn.iter().all(|c| matches!(c, Cell::Int(_)));
    let all_float = nn.iter().all(|c| matches!(c, Cell::Float(_)));
    let all_str = nn.iter().all(|c| matches!(c, Cell::Str(_)));
    let dense = nn.len() == cells.len();
    if all_int {
        if dense {
            ColData::I64(cells.iter().map(|c| if let Cell::Int(i) = c { *i } else { 0 }).collect())
        } else {
            ColData::SparseI64(
                cells
                    .iter()
                    .enumerate()
                    .filter_map(|(i, c)| if let Cell::Int(v) = c { Some((i as u64, *v)) } else { None })
                    .collect(),
            )
        }
    } else if all_float {
        if dense {
            ColData::Dense(cells.iter().map(|c| if let Cell::Float(f) = c { *f } else { 0.0 }).collect())
        } else {
            ColData::Sparse(
                cells
                    .iter()
                    .enumerate()
                    .filter_map(|(i, c)| if let Cell::Float(v) = c { Some((i as u64, *v)) } else { None })
                    .collect(),
            )
        }
    } else if all_str && dense {
        ColData::Str(cells.iter().map(|c| if let Cell::Str(s) = c { s.clone() } else { String::new() }).collect())
    } else {
        ColData::Mixed(cells.to_vec())
    }
}
