#!/usr/bin/env python3
"""setup: parse every specification with SANY so that a broken spec is noticed at setup time."""
import glob, os, subprocess, sys
V = os.path.dirname(os.path.dirname(os.path.abspath(__file__)))
bad = 0
for f in sorted(glob.glob(os.path.join(V, "spec", "*.tla")) + glob.glob(os.path.join(V, "spec", "mc", "*.tla"))):
    p = subprocess.run(["java", "-DTLA-Library=" + os.path.join(V, "spec"), "-cp", "/opt/veriftools/tla/tla2tools.jar:/opt/veriftools/tla/CommunityModules-deps.jar", "tla2sany.SANY", f],
                       cwd=os.path.dirname(f), stdout=subprocess.PIPE, stderr=subprocess.STDOUT, text=True)
    ok = p.returncode == 0 and "Semantic errors" not in p.stdout and "Parse Error" not in p.stdout
    print(("ok   " if ok else "FAIL ") + os.path.relpath(f, V))
    if not ok:
        bad += 1
        print(p.stdout[-1500:])
sys.exit(1 if bad else 0)
