"""C12: SqlGrammar.tla (derivations with expected classification and column names, refused constructs, single
token edits) emitted by TLC; every statement is run through run_query under catch_unwind + deadline on two
database states and the result-shape contract is checked. Character-level edits are added by the harness."""
import json
import os
import re
import time

from common import *

CFG = """SPECIFICATION Spec
CONSTANTS
  Part = "{part}"
INVARIANTS Emit
CHECK_DEADLOCK FALSE
"""


def run(prop, tier, replay_path=None):
    t0 = time.time()
    build_harness()
    d = os.path.join(WORK, "sql")
    os.makedirs(d, exist_ok=True)
    jobs = []
    src = os.path.join(d, "sql_%d.ndjson" % os.getpid())
    if replay_path:
        payload = json.load(open(replay_path))
        p = subprocess.run([os.path.join(HARNESS, "target", "debug", "sqlone"), str(payload["state"]), payload["sql"]], stdout=subprocess.PIPE, text=True, env=dict(os.environ, TMPDIR="/dev/shm"))
        print(p.stdout[:1500])
        if "FATAL" in p.stdout:
            print("VIOLATION property=C12 replay=%s" % replay_path)
            sys.exit(1)
        sys.exit(0)
    counts = {}
    with open(src, "w") as f:
        for part in ("derive", "refused", "edits"):
            cfg = write_cfg("sql_" + part, CFG.format(part=part))
            r = run_tlc("MC_sql", cfg, workers=2, timeout=1800, java_opts=["-Xss1g"])
            lines = extract_replay_lines(r["out"])
            if not lines:
                raise MachineryError("MC_sql emitted nothing for %s" % part)
            jobs.append(tlc_job_summary(r))
            counts[part] = len(json.loads(lines[0])["stmts"])
            f.write(lines[0] + "\n")

    def mk(i, n, out, skip):
        return [LVH, "sqlc", "--in", src, "--out", out, "--shard", str(i), "--of", str(n)]
    t = time.time()
    rs = run_shards(mk, NCPU, os.path.join(d, "out_%d" % os.getpid()), timeout=3000)
    log("statements: %s emitted; %d runs in %.0fs" % (counts, len(rs), time.time() - t))
    violations, known_hits = [], []
    n = oks = errs = 0
    for x in rs:
        if x.get("process_died"):
            p = save_replay("C12", len(violations), {"kind": "died", "idx": x["idx"], "sql": "", "state": 0})
            violations.append(("statement replay process died (work item %d)" % x["idx"], p))
            continue
        n += x["statements"]
        oks += x["ok"]
        errs += x["errors"]
        for v in x["violations"]:
            kf = None
            for f in load_known_findings():
                if f.get("status") == "known" and "C12" in f["properties"] and "what_re" in f["signature"] and len(f["signature"]) == 1 \
                        and re.search(f["signature"]["what_re"], v["what"]):
                    kf = f
                    break
            if kf:
                known_hits.append(kf)
                continue
            p = save_replay("C12", len(violations), {"kind": x["kind"], "state": x["state"], "sql": v["sql"]})
            violations.append(("%s (%s, state %d): %r -> %s" % (v["oracle"], x["kind"], x["state"], v["sql"][:200], v["what"][:300]), p))
    coverage = {
        "states": sum(j["distinct"] for j in jobs), "transitions": sum(j["states"] for j in jobs), "traces_validated_against_impl": len(rs),
        "samples": ["SELECT a AS x1 , COUNT ( 1 ) AS c FROM t", "SELECT a FROM t WHERE a BETWEEN 1 AND 2", "SELECT s , `s` FROM t WHERE a < 3 AND s <> 'zz' ORDER BY '' DESC , s LIMIT 2 OFFSET 1"],
        "evaluations": n, "distinct_nontrivial": errs,
        "rule": "derivations: every 1- and 2-item select list over 17 items (plain, aliased, quoted, expressions, aggregates, literals) x 3 FROM forms, and every single item x 9 WHERE x 4 ORDER BY "
                "x 14 LIMIT/OFFSET literal forms, with expected class and column names; 30 refused constructs; every single token edit (delete / duplicate / swap / replace by or insert one of 26 "
                "hostile tokens) of 6 seed statements; plus one character-level edit per 7th derivation x 14 hostile characters; each on a one-partition database and on a "
                "3 partitions + buffer database; distinct_nontrivial = statements answered with an error value",
        "jobs": jobs, "answered_ok": oks, "answered_error": errs, "emitted": counts, "exhaustive": True,
    }
    write_evidence("C12", tier, "model_checking", coverage,
                   ["arbitrary byte strings beyond single edits of the seeds are not enumerated (that would be fuzzing)",
                    "a query against a table without any partition answers with an empty column list: accepted as well-formed"],
                   time.time() - t0, len(violations))
    finish("C12", violations, known_hits)
