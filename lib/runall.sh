#!/bin/bash
# runs every quick (or $1) check on /repo's working tree, one after the other; summary in work/runall.log
tier=${1:-quick}
cd /verif
: > work/runall.log
for c in C01 C02 C03 C04 C05 C06 C07 C08 C09 C10 C11 C12 C13 C14 C15 C16 C17 C18; do
  s=$(date +%s)
  ./check $c --tier $tier > work/runall_$c.log 2>&1; rc=$?
  echo "$c rc=$rc $(( $(date +%s) - s ))s $(grep -c '^KNOWN-FINDING' work/runall_$c.log) known $(grep -c '^VIOLATION' work/runall_$c.log) violations" >> work/runall.log
done
