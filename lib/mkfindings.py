"""Regenerates the two tables of DESIGN.md section 9 from known_findings.json."""
import json, re, os
V = os.path.dirname(os.path.dirname(os.path.abspath(__file__)))
d = json.load(open(os.path.join(V, "known_findings.json")))
rows_f, rows_k = [], []
for f in d["findings"]:
    what = f["what"].replace("|", "\\|")
    if f["status"] == "fixed":
        what = re.sub(r"^fixed: property=\S+ \S+ ", "", what)
        rows_f.append("| %s | %s | `%s` | %s |" % (f["id"], " ".join(f["properties"]), f["commit"], what))
    else:
        rows_k.append("| %s | %s | %s |" % (f["id"], " ".join(f["properties"]), what))
p = os.path.join(V, "DESIGN.md")
s = open(p).read()
a = s.index("| id | properties | commit | what failed |")
b = s.index("### 9.2 Known findings")
s = s[:a] + "| id | properties | commit | what failed |\n|----|------------|--------|-------------|\n" + "\n".join(rows_f) + "\n\n" + s[b:]
a = s.index("| id | properties | what fails |")
b = s.index("Why these are not repaired")
s = s[:a] + "| id | properties | what fails |\n|----|------------|------------|\n" + "\n".join(rows_k) + "\n\n" + s[b:]
open(p, "w").write(s)
print(len(rows_f), "fixed,", len(rows_k), "known")
