"""C10: MC_conc (LocustStore.tla, all interleavings of ingest / flush+compaction / query / evict),
bound to the code by B3 (query and second ingestion placed at every named step boundary) and
B2 (randomised multi-threaded runs recorded and validated against the specification)."""
import json
import os
import time
import concurrent.futures

from common import *
import tracecheck

CONC_CFG = """SPECIFICATION ConcSpec
CONSTANTS
  UT = {{"ta"}}
  Shapes <- MCShapes
  SubKeys = {{"all"}}
  Clients = {{"c1"}}
  QClients = {{"q1"}}
  MaxReq = {maxreq}
  MaxWal = {maxwal}
  MaxWalFiles = 100
  CombineMode = "{mode}"
  FsSteps = FALSE
  Dev = {dev}
  Avoid <- {avoid}
  MaxFlush = {maxflush}
CONSTRAINT Bound
INVARIANTS ContentOK Tiles ColumnsKept NoFailure SnapshotIsPrefix Durable
CHECK_DEADLOCK FALSE
"""
KF3_MSG = "query reads a cold partition whose files or catalogue entry are gone"


def conc_cfg(name, mode, maxreq, maxflush, avoid, dev="{}", maxwal=100):
    return write_cfg(name, CONC_CFG.format(mode=mode, maxreq=maxreq, maxflush=maxflush, avoid=avoid, dev=dev, maxwal=maxwal))


def model_jobs(tier):
    jobs = []
    plan = [("pairs", 2, 2, 100)] if tier == "quick" else [("pairs", 2, 2, 100), ("any", 2, 2, 100), ("always", 3, 2, 100), ("pairs", 3, 2, 0)]
    for mode, maxreq, maxflush, maxwal in plan:
        cfg = conc_cfg("conc_%s_%d_%d_%d" % (mode, maxreq, maxflush, maxwal), mode, maxreq, maxflush, "MCAvoidKnown", maxwal=maxwal)
        r = run_tlc("MC_conc", cfg, workers=NCPU, timeout=3400, xmx="16g")
        if r["violated"]:
            sys.stderr.write(r["out"][-3000:])
            raise MachineryError("specification property %s violated in %s" % (r["violated"], cfg))
        jobs.append(tlc_job_summary(r))
        log("TLC %s: %d states, %d distinct, %.0fs" % (r["cfg"], r["states"], r["distinct"], r["wall_s"]))
    # the known finding at model level: without the cut-off TLC must reach exactly that failure
    cfg = conc_cfg("conc_kf3", "pairs", 2, 2, "MCAvoid")
    r = run_tlc("MC_conc", cfg, workers=NCPU, timeout=900)
    kf3_model = r["violated"] == "NoFailure" and KF3_MSG in r["out"]
    if not kf3_model:
        raise MachineryError("model-level known finding KF3 not reproduced (got %s)" % r["violated"])
    j = tlc_job_summary(r)
    j["known_finding"] = "KF3"
    jobs.append(j)
    # vacuity: evictable-before-persisted (the behaviour before fix 018b4e2) must be rejected
    cfg = conc_cfg("conc_mut_evict", "pairs", 2, 2, "MCAvoidKnown", dev='{"EvictBeforePersist"}')
    r = run_tlc("MC_conc", cfg, workers=NCPU, timeout=900)
    if r["violated"] != "NoFailure":
        raise MachineryError("model mutant EvictBeforePersist not rejected (got %s)" % r["violated"])
    j = tlc_job_summary(r)
    j["mutant"] = "EvictBeforePersist"
    j["rejected_by"] = r["violated"]
    jobs.append(j)
    log("model: KF3 reproduced, mutant EvictBeforePersist rejected")
    return jobs


def run_sched(tag, flags):
    def mk(i, n, out, skip):
        return [LVH, "sched", "--out", out, "--shard", str(i), "--of", str(n), "--skip", str(skip)] + flags
    t = time.time()
    rs = run_shards(mk, NCPU, os.path.join(WORK, "trace", "sched_%s_%d" % (tag, os.getpid())), timeout=3000)
    log("schedules %s: %d placements in %.0fs" % (tag, len(rs), time.time() - t))
    for r in rs:
        r["cfgflags"] = flags
    return rs


def run_stress(seeds, flagsets):
    d = os.path.join(WORK, "trace")
    os.makedirs(d, exist_ok=True)
    env = dict(os.environ, TMPDIR="/dev/shm")
    jobs = []
    for k, s in enumerate(seeds):
        flags = flagsets[k % len(flagsets)]
        raw = os.path.join(d, "stress_%d_%d.ndjson" % (os.getpid(), s))
        jobs.append((s, flags, raw))

    def one(job):
        s, flags, raw = job
        p = subprocess.run([LVH, "record-stress", "--out", raw, "--seed", str(s)] + flags, env=env, stdout=subprocess.PIPE, stderr=subprocess.DEVNULL, text=True, timeout=600)
        try:
            res = json.loads(p.stdout.strip().splitlines()[-1])
        except Exception:
            res = {"violations": [{"prop": "C11", "oracle": "process", "what": "stress process died rc=%s" % p.returncode}], "panics": []}
        res["flags"] = flags
        res["seed"] = s
        res["tv"] = tracecheck.validate(raw) if os.path.exists(raw) and not res["violations"] else None
        return res
    t = time.time()
    with concurrent.futures.ThreadPoolExecutor(max_workers=max(2, NCPU // 3)) as ex:
        out = list(ex.map(one, jobs))
    log("stress: %d runs in %.0fs" % (len(out), time.time() - t))
    return out


def run(prop, tier, replay_path=None):
    t0 = time.time()
    build_harness()
    if replay_path:
        return replay_single(replay_path)
    jobs = model_jobs(tier)
    sched = run_sched("f1", ["--combine", "1"])
    if tier != "quick":
        sched += run_sched("f0_sub1", ["--combine", "0", "--part-bytes", "1"])
        sched += run_sched("f1_io4", ["--combine", "1", "--io-threads", "4", "--compaction-threads", "2", "--threads", "4"])
    sd = seed()
    nseeds = 8 if tier == "quick" else 64
    flagsets = [["--combine", "1", "--bg-flush", "--evict", "--clients", "4", "--queriers", "3", "--requests", "16"],
                ["--combine", "0", "--evict", "--clients", "3", "--queriers", "2", "--requests", "12"],
                ["--combine", "1", "--bg-flush", "--clients", "6", "--queriers", "2", "--requests", "10", "--io-threads", "4", "--restarts", "2"],
                ["--combine", "4", "--bg-flush", "--evict", "--clients", "2", "--queriers", "4", "--requests", "20", "--part-bytes", "1"]]
    stress = run_stress([sd * 1000 + k for k in range(nseeds)], flagsets)
    violations, known_hits = [], []
    placements = nontrivial = 0
    for r in sched:
        if r.get("process_died"):
            p = save_replay("C10", len(violations), {"kind": "sched", "idx": r["idx"], "cfgflags": r["cfgflags"]})
            violations.append(("schedule process died at placement %d" % r["idx"], p))
            continue
        placements += 1
        if r["reached"]:
            nontrivial += 1
        for v in r["violations"]:
            v["op"] = r["label"]
            kf = match_known("C10", v, r.get("panics", []))
            if kf:
                known_hits.append(kf)
                continue
            p = save_replay("C10", len(violations), {"kind": "sched", "idx": r["idx"], "cfgflags": r["cfgflags"]})
            violations.append(("%s at %s (%s parked, query %s, restart=%s): %s | panics %s" % (v["oracle"], r["label"], r["party"], r["kind"], r["restart"], v["what"], r.get("panics", [])[:2]), p))
    accepted = events = 0
    for r in stress:
        for v in r["violations"]:
            if v["prop"] not in ("C10", "C07"):
                continue
            kf = match_known("C10", v, r.get("panics", []))
            if kf:
                known_hits.append(kf)
                continue
            p = save_replay("C10", len(violations), {"kind": "stress", "seed": r["seed"], "flags": r["flags"]})
            violations.append(("stress seed %d: %s: %s | panics %s" % (r["seed"], v["oracle"], v["what"], r.get("panics", [])[:2]), p))
        tv = r.get("tv")
        if tv:
            events += tv["events"]
            if tv["accepted"]:
                accepted += 1
            elif tv.get("prop") in ("C10", "C07"):
                p = save_replay("C10", len(violations), {"kind": "trace", "trace": tv["norm_path"], "seed": r["seed"], "flags": r["flags"]})
                violations.append(("stress seed %d trace: %s" % (r["seed"], tv["what"]), p))
    not_reached = sorted(set(r["label"] for r in sched if "reached" in r and not r["reached"]))
    if not_reached:
        raise MachineryError("sync labels never reached (hook missing?): %s" % not_reached)
    coverage = {
        "states": sum(j["distinct"] for j in jobs), "transitions": sum(j["states"] for j in jobs),
        "traces_validated_against_impl": placements + accepted,
        "samples": [{k: r[k] for k in ("label", "party", "kind", "restart", "second_ingest", "note")} for r in sched[:3] if "label" in r]
                   + [{"stress_seed": r["seed"], "flags": r["flags"], "ingests": r.get("ingests"), "queries": r.get("queries"), "flushes": r.get("flushes")} for r in stress[:2]],
        "evaluations": placements + sum(r.get("queries", 0) for r in stress),
        "distinct_nontrivial": nontrivial,
        "rule": "B3: every (parked thread, sync label, query kind, restart?, second ingestion?) placement; non-trivial = label reached and the other "
                "operation executed there. B2: multi-threaded runs with distinguishable rows; every query answer checked as a whole-request prefix and "
                "every recorded Snapshot event matched against the specification state",
        "jobs": jobs, "stress_runs": len(stress), "stress_trace_events": events, "stress_traces_accepted": accepted,
        "stress_queries_checked": sum(r.get("queries", 0) for r in stress), "exhaustive": False,
    }
    write_evidence("C10", tier, "model_checking", coverage,
                   ["windows without a sync label are reached only by the randomised driver",
                    "model bounds: 1 table, 2 requests, 2 flushes, 1 query client"], time.time() - t0, len(violations))
    finish("C10", violations, known_hits)


def replay_single(path):
    payload = json.load(open(path))
    env = dict(os.environ, TMPDIR="/dev/shm")
    if payload["kind"] == "sched":
        out = os.path.join(WORK, "trace", "single_sched_%d.ndjson" % os.getpid())
        if os.path.exists(out):
            os.remove(out)
        subprocess.run([LVH, "sched", "--out", out, "--only", str(payload["idx"])] + payload["cfgflags"], env=env)
        bad = [v for l in open(out) for v in json.loads(l).get("violations", [])]
    elif payload["kind"] == "stress":
        raw = os.path.join(WORK, "trace", "single_stress_%d.ndjson" % os.getpid())
        p = subprocess.run([LVH, "record-stress", "--out", raw, "--seed", str(payload["seed"])] + payload["flags"], env=env, stdout=subprocess.PIPE, text=True)
        res = json.loads(p.stdout.strip().splitlines()[-1])
        bad = res["violations"]
        if not bad:
            tv = tracecheck.validate(raw)
            if not tv["accepted"]:
                bad = [tv["what"]]
    else:
        tv = tracecheck.validate(payload["trace"].replace(".norm", ""))
        bad = [] if tv["accepted"] else [tv["what"]]
    for b in bad:
        print(json.dumps(b)[:500])
    if bad:
        print("VIOLATION property=C10 replay=%s" % path)
        sys.exit(1)
    sys.exit(0)
