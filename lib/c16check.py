"""C16: WireBuffer.tla (row-API column machine) and DeltaLayout.tla (integer layouts) checked by TLC; every
history / scaled sequence / float class sequence TLC prints is replayed on the real codecs."""
import json
import os
import time

from common import *


def shards(mode, src, d, extra):
    def mk(i, n, out, skip):
        return [LVH, "c16", "--mode", mode, "--in", src, "--out", out, "--shard", str(i), "--of", str(n)] + extra
    return run_shards(mk, NCPU, os.path.join(d, "out_%s_%d" % (mode, os.getpid())), timeout=3000)


def run(prop, tier, replay_path=None):
    t0 = time.time()
    build_harness()
    d = os.path.join(WORK, "c16")
    os.makedirs(d, exist_ok=True)
    if replay_path:
        payload = json.load(open(replay_path))
        out = os.path.join(d, "single_%d.out" % os.getpid())
        if os.path.exists(out):
            os.remove(out)
        cmd = [LVH, "c16", "--mode", payload["mode"], "--in", payload["src"], "--out", out, "--all-mantissas"]
        if payload["case"] >= 0:
            cmd += ["--only", str(payload["case"])]
        subprocess.run(cmd, env=dict(os.environ, TMPDIR="/dev/shm"))
        bad = [v for l in open(out) for v in json.loads(l).get("violations", [])]
        for b in bad[:5]:
            print(json.dumps(b)[:500])
        if bad:
            print("VIOLATION property=C16 replay=%s" % replay_path)
            sys.exit(1)
        sys.exit(0)
    quick = tier == "quick"
    jobs = []
    srcs = {}
    for mode, module, cfg in (
        ("wire", "MC_wire", "SPECIFICATION Spec\nCONSTANTS\n  MaxRows = %d\nINVARIANTS Inv Emit\nCHECK_DEADLOCK FALSE\n" % (5 if quick else 6)),
        ("ints", "MC_delta", "SPECIFICATION Spec\nCONSTANTS\n  W1 = 1\n  W2 = 3\n  W3 = 7\n  VMax = 12\n  V = 9\n  MaxLen = %d\nINVARIANTS Inv Emit\nCHECK_DEADLOCK FALSE\n" % (3 if quick else 4)),
        ("floats", "MC_fclass", "SPECIFICATION Spec\nCONSTANTS\n  NClasses = 12\n  MaxLen = %d\nINVARIANTS Emit\nCHECK_DEADLOCK FALSE\n" % (3 if quick else 4)),
        ("xor", "MC_xor", "SPECIFICATION Spec\nCONSTANTS\n  B = 15\n  MW = 3\n  LZCap = 31\n  MaxLen = %d\n  Pool = {%s}\nINVARIANTS Inv Emit\nCHECK_DEADLOCK FALSE\n"
         % (3, "0, 1, 7, 8184, 8185, 8188, 16384, 24568" if quick else "0, 1, 7, 8184, 8185, 8188, 16384, 24568, 24569, 32760, 32767, 16376, 8192, 12288")),
    ):
        r = run_tlc(module, write_cfg("c16_" + mode, cfg), workers=NCPU // 2, timeout=3000)
        if r["violated"]:
            raise MachineryError("%s: %s violated" % (module, r["violated"]))
        lines = extract_replay_lines(r["out"])
        if not lines:
            raise MachineryError("%s emitted nothing" % module)
        srcs[mode] = os.path.join(d, mode + ".ndjson")
        with open(srcs[mode], "w") as f:
            f.write("\n".join(lines) + "\n")
        jobs.append(tlc_job_summary(r))
        log("%s: %d cases" % (module, len(lines)))
    violations, known = [], []
    stats = {"wire": 0, "ints": 0, "floats": 0, "xor": 0, "sequences": 0, "evals": 0, "layouts": {}, "layout_differs": 0, "xor_token_mismatch": 0}
    for mode in ("wire", "ints", "floats", "xor"):
        rs = shards(mode, srcs[mode], d, [] if quick else ["--all-mantissas"])
        for x in rs:
            if x.get("process_died"):
                p = save_replay("C16", len(violations), {"src": srcs[mode], "mode": mode, "case": 0})
                violations.append(("C16 replay process died (%s)" % mode, p))
                continue
            stats[mode] += x["units"]
            stats["sequences"] += x["sequences"]
            stats["evals"] += x["evals"]
            stats["xor_token_mismatch" if mode == "xor" else "layout_differs"] += x["layout_differs"]
            for k, v in x["layouts"].items():
                stats["layouts"][k] = stats["layouts"].get(k, 0) + v
            for v in x["violations"]:
                if v["oracle"] == "machinery":
                    raise MachineryError(v["what"])
                kf = match_known("C16", v, v.get("panics", []))
                if kf:
                    known.append(kf)
                    continue
                p = save_replay("C16", len(violations), {"src": srcs[mode], "mode": mode, "case": v.get("case", 0)})
                violations.append(("%s (case %s): %s" % (v["oracle"], v.get("case"), v["what"]), p))
    log("c16: %r" % stats)
    missing = [l for l in ("raw", "range", "d1", "d2", "d3", "dd1", "dd2", "dd3") if not stats["layouts"].get(l)]
    if missing:
        raise MachineryError("integer layouts never chosen by the implementation on the generated sequences: %r" % missing)
    coverage = {
        "states": sum(j["distinct"] for j in jobs), "transitions": sum(j["states"] for j in jobs),
        "traces_validated_against_impl": stats["wire"] + stats["sequences"] + stats["evals"],
        "evaluations": stats["wire"] + stats["sequences"] + stats["evals"],
        "samples": [json.loads(open(srcs["wire"]).readlines()[100]), json.loads(open(srcs["ints"]).readlines()[1000])],
        "integer_layouts_chosen_by_impl": stats["layouts"], "layout_differs_from_spec": stats["layout_differs"],
        "xor_sequences": stats["xor"], "xor_token_streams_differing_from_spec": stats["xor_token_mismatch"],
        "rule": "WireBuffer.tla: every history of <= %d rows over cell kinds {int, float, str, null, absent} (TLC checks Sound, prints variant + logical cells; replay: real row API, "
                "serialize/deserialize, every wire-schema representation of the same cells, ingest + SELECT on the embedded database). DeltaLayout.tla at widths (1,3,7): round trip and "
                "narrow fit for every sequence of <= %d values in -9..9; each printed vector is concretised at the i8/i16/i32 bounds as first differences, second differences and values "
                "from 4 starting points (ends of the i64 range included), plus 18 sequences whose differences overflow i64; QueryResponse serialize/deserialize must return the same integers. "
                "Float class sequences of <= %d over 12 classes x mantissa settings %s x max_regret {0,3,100} x {as is, repeated with varying low word}: bit-exact, or sign/exponent/leading "
                "mantissa bits exact. XorFloat.tla (the window coder transcribed at 15-bit words: sign, 11 exponent bits, 3 mantissa bits): Keeps and FieldsOK for every sequence of <= 3 words of "
                "the pool x mantissa {None,0..3} x regret {0,3,100}; each printed sequence, lifted by 49 bits, goes through the real coder: the post-condition must hold and the real token stream is "
                "compared with the specification's." % (5 if quick else 6, 3 if quick else 4, 3 if quick else 4, "{None,0,1,7,23,51,52}" if quick else "None and 0..52"),
        "jobs": jobs, "exhaustive": True,
    }
    write_evidence("C16", tier, "model_checking", coverage,
                   ["XorFloat.tla models the window coder at 15-bit words; the real 64-bit coder is bound to it by token-stream comparison on lifted words (a differing but lossless stream is reported, not a violation)",
                    "the layout the real coder chooses is read from the message and compared with DeltaLayout!Layout at the real widths for coverage only (a different but lossless choice is not a violation)",
                    "values i64::MAX and NaN are not used as cells on the database route (in-band NULL markers, property C01)"],
                   time.time() - t0, len(violations))
    finish("C16", violations, known)
