#!/bin/sh
# usage: tv.sh <normalised trace> <cfg>
cd /verif/spec/mc && TRACE=$1 JAVA_TOOL_OPTIONS="-Xss1g -Dtlc2.tool.queue.IStateQueue=StateDeque" exec java -XX:+UseParallelGC -Xmx4g -DTLA-Library=/verif/spec -cp /opt/veriftools/tla/tla2tools.jar:/opt/veriftools/tla/CommunityModules-deps.jar tlc2.TLC -workers 1 -metadir /verif/work/tlc/tv_$$ -cleanup -noGenerateSpecTE -config $2 Trace_LocustStore.tla
