"""C15: Subpartition.tla (greedy split in name order, file key = last column, lower-bound routing) checked
exhaustively by TLC; every case replayed against the real subpartition() / PartitionMetadata routing and a
sample end to end (ingest, flush with the size limit, restart, SELECT every pool name); table-name pool
through the real sanitize_table_name."""
import json
import os
import time

from common import *

CFG = "SPECIFICATION Spec\nINVARIANTS Inv Emit\nCHECK_DEADLOCK FALSE\n"


def run(prop, tier, replay_path=None):
    t0 = time.time()
    build_harness()
    d = os.path.join(WORK, "c15")
    os.makedirs(d, exist_ok=True)
    src = os.path.join(d, "cases.ndjson")
    if replay_path:
        payload = json.load(open(replay_path))
        out = os.path.join(d, "single_%d.out" % os.getpid())
        if os.path.exists(out):
            os.remove(out)
        subprocess.run([LVH, "c15", "--in", payload["src"], "--out", out, "--only", str(payload["case"])], env=dict(os.environ, TMPDIR="/dev/shm"))
        bad = [v for l in open(out) for v in json.loads(l).get("violations", [])]
        for b in bad[:5]:
            print(json.dumps(b)[:400])
        if bad:
            print("VIOLATION property=C15 replay=%s" % replay_path)
            sys.exit(1)
        sys.exit(0)
    cfg = write_cfg("subpart", CFG)
    r = run_tlc("MC_subpart", cfg, workers=NCPU // 2, timeout=1800)
    if r["violated"]:
        raise MachineryError("Subpartition.tla: %s violated" % r["violated"])
    lines = extract_replay_lines(r["out"])
    if not lines:
        raise MachineryError("MC_subpart emitted nothing")
    with open(src, "w") as f:
        f.write("\n".join(lines) + "\n")
    job = tlc_job_summary(r)

    def mk(i, n, out, skip):
        return [LVH, "c15", "--in", src, "--out", out, "--shard", str(i), "--of", str(n), "--e2e-every", "40" if tier == "quick" else "5"]
    rs = run_shards(mk, NCPU, os.path.join(d, "out_%d" % os.getpid()), timeout=3000)
    violations = []
    units = e2e = 0
    for x in rs:
        if x.get("process_died"):
            p = save_replay("C15", len(violations), {"src": src, "case": 0})
            violations.append(("C15 replay process died", p))
            continue
        units += x["units"]
        e2e += x["e2e"]
        for v in x["violations"]:
            if v["oracle"] == "machinery":
                raise MachineryError(v["what"])
            p = save_replay("C15", len(violations), {"src": src, "case": v.get("case", 0)})
            violations.append(("%s (case %s, table %r): %s %s" % (v["oracle"], v.get("case"), v.get("table"), v.get("sql", ""), v["what"]), p))
    log("subpartition cases: %d unit replays, %d end-to-end" % (units, e2e))
    coverage = {
        "states": job["distinct"], "transitions": job["states"], "traces_validated_against_impl": units + e2e,
        "samples": [json.loads(lines[len(lines) // 2]), json.loads(lines[7])],
        "evaluations": units * 7 + e2e * 7, "distinct_nontrivial": sum(1 for l in lines if len(json.loads(l)["groups"]) > 1),
        "rule": "every non-empty subset of a pool of 7 column-name classes (digit-first, upper/lower case pair, proper prefix, > 64 bytes, last, non-ASCII) x sizes {2,8} bytes/row per "
                "stored column x limits {1 byte, 5, 11, unlimited} (x64 rows): TLC checks RoutingOK on all 65 024 states and prints the 8 744 canonical cases; each is replayed on the "
                "real split / key / routing code, every 40th (thorough: 5th) end to end with a table name from an 18-name pool; non-trivial = more than one file",
        "jobs": [job], "exhaustive": True,
    }
    write_evidence("C15", tier, "model_checking", coverage,
                   ["column byte sizes are made exact by incompressible u16 / i64 data (checked on every case: a deviation is a machinery error)",
                    "the injectivity of sanitize_table_name is checked on the enumerated table-name pool, not proved"],
                   time.time() - t0, len(violations))
    finish("C15", violations, [])
