"""C03 / C04 / C05 / C02: QuerySem.tla evaluated by TLC on bounded families of tables and queries
(MC_query); every (table, encoding class, physical layout) is built in the real database and every
query of the family is compared with the specification's answer."""
import json
import os
import re
import time

from common import *

QCFG = """SPECIFICATION Spec
CONSTANTS
  NRows = {nrows}
  Family = "{family}"
INVARIANTS Emit
CHECK_DEADLOCK FALSE
"""
FAMILY_OF = {"C03": ["filter"], "C04": ["group"], "C05": ["sort"], "C02": ["filter", "group", "sort"]}
NCLASSES, NLAYOUTS = 7, 6


def emit(family, nrows, tag):
    cfg = write_cfg("query_%s_%d_%s" % (family, nrows, tag), QCFG.format(nrows=nrows, family=family))
    r = run_tlc("MC_query", cfg, workers=4, timeout=3000, xmx="12g")
    lines = extract_replay_lines(r["out"])
    if len(lines) < 2:
        sys.stderr.write(r["out"][-3000:])
        raise MachineryError("MC_query emitted nothing for family %s" % family)
    d = os.path.join(WORK, "query")
    os.makedirs(d, exist_ok=True)
    path = os.path.join(d, "q_%s_%d_%s_%d.ndjson" % (family, nrows, tag, os.getpid()))
    with open(path, "w") as f:
        f.write("\n".join(lines) + "\n")
    j = tlc_job_summary(r)
    j["family"] = family
    j["tables"] = len(lines) - 1
    q = [json.loads(l) for l in lines if '"kind":"queries"' in l][0]
    j["queries_per_table"] = len(q["preds"]) + len(q["gqueries"]) + len(q["squeries"]) * len(q["limits"]) * len(q["offsets"])
    return path, j, lines


def run_family(path, tag, classes, layouts):
    def mk(i, n, out, skip):
        return [LVH, "qsem", "--in", path, "--out", out, "--shard", str(i), "--of", str(n), "--skip", str(skip),
                "--classes", ",".join(map(str, classes)), "--layouts", ",".join(map(str, layouts))]
    t = time.time()
    rs = run_shards(mk, NCPU, os.path.join(WORK, "query", "out_%s_%d" % (tag, os.getpid())), timeout=6000)
    log("family %s: %d databases, %d queries in %.0fs" % (tag, len(rs), sum(r.get("queries", 0) for r in rs), time.time() - t))
    return rs


def classify(prop, r, v):
    """known finding for this violation, or None"""
    if v.get("kf"):
        for f in load_known_findings():
            if f.get("status") == "known" and f["signature"].get("kf_tag") == v["kf"] and prop in f["properties"]:
                return f
    # panics recorded while this query ran (group family), else every panic of the work item
    pan = " ".join(v["panics"] if "panics" in v else r.get("panics", []))
    for f in load_known_findings():
        if f.get("status") != "known" or prop not in f["properties"]:
            continue
        sig = f["signature"]
        if "kf_tag" in sig or "oracle" in sig or "op" in sig:
            continue
        if "table_kind" in sig:
            # tables of MC_query whose column is NULL in every row: AllNull (1): n, nf, ns, l; One (3): n, l
            sql = v.get("sql", "")
            if not (sig["table_kind"] == "allnull" and (r.get("table") == 1 or (r.get("table") == 3 and re.search(r"\((n|l)\)", sql)))):
                continue
        if "sql_re" in sig and not re.search(sig["sql_re"], v.get("sql", "")):
            continue
        if "what_re" in sig and not re.search(sig["what_re"], v.get("what", "")):
            continue
        if "panic_re" in sig and not re.search(sig["panic_re"], pan + " " + v.get("what", "")):
            continue
        return f
    return None


def run(prop, tier, replay_path=None):
    t0 = time.time()
    build_harness()
    if replay_path:
        return replay_single(prop, replay_path)
    sd = seed()
    jobs, results = [], []
    for family in FAMILY_OF[prop]:
        path, j, _ = emit(family, 6, prop)
        jobs.append(j)
        if prop == "C02":
            classes = [sd % NCLASSES, (sd + 3) % NCLASSES] if tier == "quick" else list(range(NCLASSES))
            layouts = list(range(NLAYOUTS))
        elif tier == "quick" and prop == "C04":
            # (the group family is 2 080 queries per database; databases are rebuilt after a query that kills a worker)
            classes = [sd % NCLASSES, (sd + 2) % NCLASSES]
            layouts = [0, 1, 3, 4]
        elif tier == "quick":
            classes = [(sd + k) % NCLASSES for k in (0, 2, 4)]
            layouts = [0, 1, 3, 4]
        else:
            classes = list(range(NCLASSES))
            layouts = list(range(NLAYOUTS))
        for r in run_family(path, "%s_%s" % (prop, family), classes, layouts):
            r["family"] = family
            r["src"] = path
            r["classes"], r["layouts"] = classes, layouts
            results.append(r)
        if prop == "C03":
            # boundary classes: the column's largest value is stored as the maximum of a narrow type and
            # constants lie just beyond it (strictly monotone, not affine: filters only)
            clb, lab = [7, 8], ([1, 4] if tier == "quick" else list(range(NLAYOUTS)))
            for r in run_family(path, "%s_%s_b" % (prop, family), clb, lab):
                r["family"] = family
                r["src"] = path
                r["classes"], r["layouts"] = clb, lab
                results.append(r)
        if tier == "quick" and prop == "C05":
            # 40-row tables: more than one sort run per partition, limits around half the partition length
            path2, j2, _ = emit(family, 40, prop)
            jobs.append(j2)
            cl2, la2 = [sd % NCLASSES, (sd + 3) % NCLASSES], [1, 5]
            for r in run_family(path2, "%s_%s_40" % (prop, family), cl2, la2):
                r["family"] = family
                r["src"] = path2
                r["classes"], r["layouts"] = cl2, la2
                results.append(r)
        if tier != "quick":
            # longer tables: dictionary encodings, several streaming batches, top-n vs sort switch
            path2, j2, _ = emit(family, 40, prop)
            jobs.append(j2)
            for r in run_family(path2, "%s_%s_40" % (prop, family), [sd % NCLASSES, (sd + 1) % NCLASSES, (sd + 4) % NCLASSES], [1, 2, 4, 5]):
                r["family"] = family
                r["src"] = path2
                r["classes"], r["layouts"] = [sd % NCLASSES, (sd + 1) % NCLASSES, (sd + 4) % NCLASSES], [1, 2, 4, 5]
                results.append(r)
    violations, known_hits = [], []
    queries = nontrivial = dbs = 0
    # C02: a query whose answer is wrong under some layouts but right under others depends on the layout
    by_query = {}
    for r in results:
        if r.get("process_died"):
            p = save_replay(prop, len(violations), {"kind": "qsem-died", "idx": r["idx"]})
            violations.append(("query replay process died at work item %d" % r["idx"], p))
            continue
        dbs += 1
        queries += r["queries"]
        nontrivial += r["nontrivial"]
        for v in r["violations"]:
            if v.get("oracle") == "batch-deadline":
                raise MachineryError("a query batch exceeded its 900 s deadline (every single query has its own 10 s deadline): machine overloaded? %s" % v.get("sql"))
            if v.get("oracle") == "build":
                kf = None
                for f in load_known_findings():
                    if f["id"] in ("KF1", "KF2") and re.search(f["signature"]["panic_re"], " ".join(r.get("panics", []))):
                        kf = f
                if kf:
                    known_hits.append(kf)
                    continue
            kf = classify(prop, r, v)
            if kf:
                known_hits.append(kf)
                continue
            if prop == "C02":
                by_query.setdefault((r["family"], r["table"], r["class"], v.get("sql", "")), []).append((r, v))
                continue
            p = save_replay(prop, len(violations), {"kind": "qsem", "src": r["src"], "family": r["family"], "table": r["table"], "class": r["class"], "layout_idx": r["layout_idx"], "sql": v.get("sql")})
            violations.append(("%s (table %s, class %s, layout %s): %s -> %s | panics %s" % (v["oracle"], r["table"], r["class"], r["layout"], v.get("sql", ""), v["what"], (v["panics"] if "panics" in v else r.get("panics", []))[:1]), p))
    if prop == "C02":
        for (family, table, cls, sql), lst in by_query.items():
            layouts_wrong = sorted(set(r["layout"] for r, _ in lst))
            r, v = lst[0]
            if len(layouts_wrong) < len(r["layouts"]):
                p = save_replay(prop, len(violations), {"kind": "qsem", "src": r["src"], "family": family, "table": table, "class": cls, "layout_idx": r["layout_idx"], "sql": sql})
                violations.append(("answer depends on the physical layout (wrong under %s only): %s -> %s" % (layouts_wrong, sql, v["what"]), p))
            else:
                # wrong under every layout: not a layout dependence; reported by C03/C04/C05
                pass
    sample = []
    for r in results[:2]:
        if "layout" in r:
            sample.append({"table": r["table"], "class": r["class"], "layout": r["layout"], "queries": r["queries"]})
    coverage = {
        "states": sum(j["distinct"] for j in jobs), "transitions": sum(j["states"] for j in jobs),
        "traces_validated_against_impl": dbs,
        "samples": sample + [{"families": [j["family"] for j in jobs], "queries_per_table": [j["queries_per_table"] for j in jobs]}],
        "evaluations": queries, "distinct_nontrivial": nontrivial,
        "rule": "one TLC state per pattern table (19 tables: generated 6-row tables over int/float/string/nullable/late/absent columns plus all-NULL, constant and "
                "single-row tables; 40-row tables in the thorough tier); the line TLC prints carries the specification's answer to every query of the family; each "
                "(table, encoding class, layout) is built in the real database and all queries are run; non-trivial = the expected answer neither empty nor everything "
                "(filters), more than one group (aggregates), a window strictly inside the order (sorts)",
        "jobs": jobs, "databases_built": dbs, "exhaustive": True,
    }
    write_evidence(prop, tier, "model_checking", coverage,
                   ["concretisation of abstract cells is strictly monotone per column type and affine for numeric columns (sums are computed in i128 from the spec's sum of indices and count)",
                    "float sums compared with relative tolerance 1e-9", "AVG(float) and aggregates over a never-ingested column may be refused with an error value"],
                   time.time() - t0, len(violations))
    finish(prop, violations, known_hits)


def replay_single(prop, path):
    payload = json.load(open(path))
    out = os.path.join(WORK, "query", "single_%d.out" % os.getpid())
    if os.path.exists(out):
        os.remove(out)
    # the work item index of (table, class, layout) in a run restricted to that class and layout
    src = payload["src"]
    if not os.path.exists(src):
        _, _, _ = None, None, None
        raise MachineryError("emitted family file %s is gone; re-run the check" % src)
    subprocess.run([LVH, "qsem", "--in", src, "--out", out, "--classes", str(payload["class"]), "--layouts", str(payload["layout_idx"])], env=dict(os.environ, TMPDIR="/dev/shm"))
    bad = []
    for l in open(out):
        r = json.loads(l)
        if r.get("table") != payload["table"]:
            continue
        for v in r.get("violations", []):
            if payload.get("sql") in (None, v.get("sql")) and not classify(prop, r, v):
                bad.append(v)
    for b in bad[:5]:
        print(json.dumps(b)[:500])
    if bad:
        print("VIOLATION property=%s replay=%s" % (prop, path))
        sys.exit(1)
    sys.exit(0)
