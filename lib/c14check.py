"""C14: Blob.tla (envelope = version, length, checksum, payload; corruption actions; injective checksum) checked by
TLC incl. the no-checksum mutant; every corruption class realised on real log-segment / partition / catalogue
files and loaded through the envelope reader and through LocustDB::new + queries; serialiser round trips."""
import json
import os
import time

from common import *

CFG = """SPECIFICATION Spec
CONSTANTS
  Sym = {{0, 1, 2}}
  MaxLen = {maxlen}
  NoChecksum = {nochk}
INVARIANTS Inv Emit
CHECK_DEADLOCK FALSE
"""


def run(prop, tier, replay_path=None):
    t0 = time.time()
    build_harness()
    d = os.path.join(WORK, "c14")
    os.makedirs(d, exist_ok=True)
    jobs = []
    r = run_tlc("MC_blob", write_cfg("blob", CFG.format(maxlen=3 if tier == "quick" else 4, nochk="FALSE")), workers=NCPU // 2, timeout=1800)
    if r["violated"]:
        raise MachineryError("Blob.tla: %s violated" % r["violated"])
    jobs.append(tlc_job_summary(r))
    r = run_tlc("MC_blob", write_cfg("blob_mut", CFG.format(maxlen=2, nochk="TRUE")), workers=4, timeout=900)
    if r["violated"] != "Inv":
        raise MachineryError("model mutant NoChecksum not rejected (got %s)" % r["violated"])
    j = tlc_job_summary(r)
    j["mutant"] = "NoChecksum"
    j["rejected_by"] = "Inv"
    jobs.append(j)
    out = os.path.join(d, "out_%d.ndjson" % os.getpid())
    if os.path.exists(out):
        os.remove(out)
    env = dict(os.environ, TMPDIR="/dev/shm", LVH_DEADLINE_S="8")
    cmd = [LVH, "c14", "--out", out] + (["--all-bits"] if tier != "quick" else [])
    p = subprocess.run(cmd, env=env, stdout=subprocess.DEVNULL, stderr=subprocess.DEVNULL, timeout=6000)
    rs = [json.loads(l) for l in open(out) if '"violations"' in l] if os.path.exists(out) else []
    if len(rs) < 2:
        raise MachineryError("c14 replay did not finish (rc=%s)" % p.returncode)
    violations = []
    for x in rs:
        for v in x["violations"]:
            if v["oracle"] == "machinery":
                raise MachineryError(v["what"])
            pth = save_replay("C14", len(violations), {"tier": tier, "violation": v})
            violations.append(("%s (%s, %s): %s" % (v["oracle"], v.get("file"), v.get("corruption"), v["what"]), pth))
    main = rs[0]
    coverage = {
        "states": sum(j["distinct"] for j in jobs), "transitions": sum(j["states"] for j in jobs),
        "traces_validated_against_impl": main["blob_loads"] + main["db_opens"] + rs[1]["roundtrips"],
        "samples": ["flip checksum byte 16 bit 0 of a log segment", "cut the catalogue to 47 bytes", "append 48 bytes to a partition file", "the payload without its envelope"],
        "evaluations": main["blob_loads"] + main["db_opens"], "distinct_nontrivial": main["rejected"],
        "rule": "model: every payload of <= 3 symbols x every single-cell change, cut, append and foreign file (Safe: reject or the original payload). Binding: for a real log segment, "
                "partition file and catalogue: bit flips at first/middle/last byte of each of the four regions (thorough: every bit of every byte), cuts at region boundaries +-1 "
                "(thorough: every length), 1- and 48-byte suffixes, three foreign files; each loaded through the envelope reader and by opening the database on a directory holding it; "
                "round trips of 40 event-buffer shapes, 27 catalogue shapes and 144 column shapes; distinct_nontrivial = corrupted files rejected by the envelope reader",
        "jobs": jobs, "envelope_loads": main["blob_loads"], "database_opens": main["db_opens"], "roundtrips": rs[1]["roundtrips"], "exhaustive": tier != "quick",
    }
    write_evidence("C14", tier, "model_checking", coverage,
                   ["H is injective (the assumption about SHA-256); capnp decoding of a payload whose checksum matches is unreachable without a collision",
                    "LocustDB::new has no error channel: a panic that reaches the caller counts as the refusal"], time.time() - t0, len(violations))
    finish("C14", violations, [])
