"""C06: Int64.tla (exact arithmetic on 15-bit limbs, self-checked against native arithmetic) gives the exact
value and the class (exact / fail / either) of every expression over edge operands and of sums; the harness
runs the expressions on columns (wide and narrow encodings) and constants, and the sums over 1-3 partitions."""
import json
import os
import time

from common import *

CFG = """SPECIFICATION Spec
CONSTANTS
  Depth2 = {d2}
INVARIANTS Emit
CHECK_DEADLOCK FALSE
"""


def run(prop, tier, replay_path=None):
    t0 = time.time()
    build_harness()
    d = os.path.join(WORK, "arith")
    os.makedirs(d, exist_ok=True)
    if replay_path:
        payload = json.load(open(replay_path))
        out = os.path.join(d, "single_%d.out" % os.getpid())
        if os.path.exists(out):
            os.remove(out)
        cmd = [LVH, "arith", "--in", payload["src"], "--out", out, "--seed", str(payload["seed"])]
        cmd += ["--sums"] if payload.get("sums") else ["--only", str(payload["row"])]
        subprocess.run(cmd, env=dict(os.environ, TMPDIR="/dev/shm"))
        bad = [v for l in open(out) for v in json.loads(l).get("violations", [])]
        for b in bad[:5]:
            print(json.dumps(b)[:400])
        if bad:
            print("VIOLATION property=C06 replay=%s" % replay_path)
            sys.exit(1)
        sys.exit(0)
    cfg = write_cfg("arith_%s" % tier, CFG.format(d2="FALSE" if tier == "quick" else "TRUE"))
    r = run_tlc("MC_arith", cfg, workers=NCPU, timeout=3400, xmx="16g", java_opts=["-Xss1g"])
    lines = extract_replay_lines(r["out"])
    if len(lines) < 2:
        sys.stderr.write(r["out"][-3000:])
        raise MachineryError("MC_arith emitted nothing (Int64 self-check failed?)")
    job = tlc_job_summary(r)
    src = os.path.join(d, "arith_%s.ndjson" % tier)
    with open(src, "w") as f:
        f.write("\n".join(lines) + "\n")

    def mk(i, n, out, skip):
        return [LVH, "arith", "--in", src, "--out", out, "--shard", str(i), "--of", str(n), "--seed", str(seed())]
    rs = run_shards(mk, NCPU, os.path.join(d, "out_%d" % os.getpid()), timeout=3000)

    def mks(i, n, out, skip):
        return [LVH, "arith", "--in", src, "--out", out, "--shard", str(i), "--of", str(n), "--seed", str(seed()), "--sums"]
    rs += run_shards(mks, 1, os.path.join(d, "outs_%d" % os.getpid()), timeout=3000)
    violations = []
    evals = nontrivial = 0
    for x in rs:
        if x.get("process_died"):
            p = save_replay("C06", len(violations), {"src": src, "seed": seed(), "row": x["idx"] + 1})
            violations.append(("arithmetic replay process died at row %d" % x["idx"], p))
            continue
        evals += x["evals"]
        nontrivial += x["nontrivial"]
        for v in x["violations"]:
            p = save_replay("C06", len(violations), {"src": src, "seed": seed(), "row": x.get("row"), "sums": bool(x.get("sums")), "sql": v["sql"]})
            violations.append(("%s: %s -> %s (class %s, exact %s) | panics %s" % (v["oracle"], v["sql"], v["what"], v.get("class"), v.get("exact"), x.get("panics", [])[:1]), p))
    log("arithmetic: %d evaluations, %d with overflow / division by zero / intermediate overflow" % (evals, nontrivial))
    coverage = {
        "states": job["distinct"], "transitions": job["states"], "traces_validated_against_impl": len(rs),
        "samples": [{"sql": "SELECT a * b FROM t21 WHERE id = 20", "class": "fail", "why": "2^62 * 2^62 does not fit"},
                    {"sql": "SELECT (a + b) - 2 FROM t21 WHERE id = 20", "class": "either", "why": "only the intermediate 2^63 leaves the range"}],
        "evaluations": evals, "distinct_nontrivial": nontrivial,
        "rule": "29 operands at the edges of u8/u16/u32/i64 and of offset encodings (incl. -2^63, 2^63-2, 3037000500); every a op b for op in + - * / % as column-column "
                "(wide and narrow encodings) and column-constant; thorough: depth-2 trees with a third operand from 6 values; NULL and absent operands; SUM over all "
                "triples of 8 values in 1-3 partitions with and without grouping; non-trivial = the specification's class is not 'exact'",
        "jobs": [job], "exhaustive": True,
    }
    write_evidence("C06", tier, "model_checking", coverage,
                   ["2^63-1 is the engine's reserved NULL marker: an expression whose exact value is that number may come back as itself, NULL or an error",
                    "Int64.tla is cross-checked against TLC's native arithmetic on 6 561 operand pairs on every run (ASSUME SmallOK)"],
                   time.time() - t0, len(violations))
    finish("C06", violations, [])
