"""Normalises a raw trace (events written by the hooks in /repo/src/verif.rs) into the form
Trace_LocustStore.tla reads. Pure projection: fields are renamed / re-shaped, events the
specification has no action for are dropped; no state is guessed."""
import json

DROP = {"Fs", "TaskBegin", "TaskEnd", "WorkerExit", "Schedule", "IngestBlocked", "Load", "WalThreadExit"}


def parts_of(tbl):
    return [{"id": p["id"], "off": p["offset"], "len": p["len"]} for p in tbl["parts"]]


def norm_event(e):
    ev = e["ev"]
    if ev in DROP:
        return None
    o = {"ev": ev}
    if ev in ("RecStart", "Reset", "ForceFlushCall", "FlushFreeze", "FlushDone"):
        pass
    elif ev == "RecMeta":
        o["cursor"] = e["cursor"]
        o["parts"] = [{"t": p["table"], "id": p["id"]} for p in e["parts"]]
    elif ev == "RecWal":
        o["id"] = e["id"]
        o["deleted"] = e["action"] == "deleted"
    elif ev == "RecTables":
        o["tables"] = [{"t": t["name"], "parts": parts_of(t)} for t in e["tables"]]
    elif ev == "RecReplay":
        o["id"] = e["id"]
    elif ev == "RecUp":
        o["tables"] = [{"t": t["name"], "parts": parts_of(t), "buffer": t["buffer_len"],
                        "loaded": t["column_names"] is not None, "names": t["column_names"] or []} for t in e["tables"]]
    elif ev in ("IngestLock", "IngestAck"):
        o["wal_size"] = 1 if e["wal_size"] > 0 else 0
    elif ev == "IngestCatalogue":
        full, user = [], []
        for t in e["tables"]:
            if t["table"].startswith("_meta_"):
                full.append({"t": t["table"], "n": t["rows"], "names": t["names"] or []})
            else:
                c = {"t": t["table"], "n": t["rows"], "names": t["cols"]}
                full.append(c)
                user.append(c)
        o["full"], o["user"] = full, user
    elif ev in ("WalAssign", "WalStored", "DeleteWal"):
        o["id"] = e["id"]
    elif ev == "ApplyTable":
        o["t"], o["rows"], o["buffer"] = e["table"], e["rows"], e["buffer_len"]
    elif ev == "FlushTrigger":
        o["pending"] = e["pending"]
    elif ev == "FlushLock":
        o["lo"], o["hi"], o["tables"] = e["lo"], e["hi"], e["tables"]
    elif ev == "Freeze":
        o["t"], o["len"] = e["table"], e["frozen_len"]
    elif ev == "Batch":
        o["t"], o["pid"], o["off"], o["len"] = e["table"], e["pid"], e["offset"], e["len"]
    elif ev == "FlushTable":
        o["t"], o["batched"] = e["table"], e["batched"]
        if e["plan"] is None:
            o["plan_none"], o["cid"], o["parts"] = True, 0, []
        else:
            o["plan_none"], o["cid"], o["parts"] = False, e["plan"]["cid"], e["plan"]["parts"]
    elif ev == "PersistSub":
        o["t"], o["pid"], o["key"], o["compaction"] = e["table"], e["pid"], e["key"], e["compaction"]
    elif ev == "MsInsert":
        o["t"], o["pid"], o["off"], o["len"] = e["table"], e["pid"], e["offset"], e["len"]
    elif ev == "CompactNames":
        o["t"], o["cid"], o["cols"] = e["table"], e["cid"], e["cols"]
    elif ev == "CompactSwap":
        o["t"], o["cid"], o["off"], o["len"], o["old"] = e["table"], e["cid"], e["offset"], e["len"], e["old"]
    elif ev == "CompactMs":
        o["t"], o["cid"], o["old"] = e["table"], e["cid"], e["old"]
        o["del"] = [{"pid": d["pid"], "key": d["key"]} for d in e["to_delete"]]
    elif ev == "PersistMeta":
        o["cursor"] = e["cursor"]
        o["parts"] = [{"t": p["table"], "id": p["id"]} for p in e["parts"]]
    elif ev == "DeleteOrphan":
        o["t"], o["pid"], o["key"] = e["table"], e["pid"], e["key"]
    elif ev == "Snapshot":
        o["t"], o["parts"], o["frozen"], o["buffer"] = e["table"], [{"id": p["id"], "off": p["offset"], "len": p["len"]} for p in e["parts"]], e["frozen_len"], e["buffer_len"]
    elif ev == "Evict":
        o["t"], o["pid"] = e["table"], e["pid"]
    else:
        return None
    return o


def normalise(raw_path, out_path):
    """returns (n_events, user_tables)"""
    n = 0
    uts = set()
    with open(out_path, "w") as out:
        for l in open(raw_path):
            l = l.strip()
            if not l:
                continue
            e = json.loads(l)
            o = norm_event(e)
            if o is None:
                continue
            for k in ("t",):
                if k in o and not o[k].startswith("_meta_"):
                    uts.add(o[k])
            if o["ev"] == "IngestCatalogue":
                for c in o["user"]:
                    uts.add(c["t"])
            out.write(json.dumps(o) + "\n")
            n += 1
    return n, sorted(uts)
