"""C11: Scheduler.tla (task queue / workers / answer hand-over: safety + liveness), bound to the code by
replaying every TLC-emitted request history (valid and failing requests, 1..2 clients) with 1 and 2
worker threads under deadlines with a canary after every request, plus the flush / compaction
encoding branches of the history replays (C07 engine) judged by the completes-in-time oracle."""
import json
import os
import time

from common import *
import histcheck

SCHED_CFG = """SPECIFICATION Spec
CONSTANTS
  Workers = {workers}
  Tasks = {{"q0", "q1", "q2", "q3"}}
  NPart <- MCNPart
  FailAt <- MCFailAt
  NoNotify = {nonotify}
INVARIANTS AnswerAtMostOnce NoLostWakeup WorkersSane
PROPERTIES EveryRequestAnswered AllWorkersReturn
CHECK_DEADLOCK FALSE
"""
REQ_CFG = """SPECIFICATION Spec
CONSTANTS
  ClientIds = {{1, 2}}
  Classes = {{"Q_OK", "Q_AGG", "E_PARSE", "E_TABLE", "E_TYPE", "E_OVERFLOW", "E_UNSUP", "E_DIV0", "E_OFFSET", "E_AVGF", "E_LIMITF", "E_NOTNULL", "E_JOIN", "E_SUMSTR", "INGEST", "FLUSH", "STATS"}}
  MaxLen = {maxlen}
INVARIANTS EmitInv
CHECK_DEADLOCK FALSE
"""


def run(prop, tier, replay_path=None):
    t0 = time.time()
    build_harness()
    if replay_path:
        return replay_single(replay_path)
    jobs = []
    for workers in (['{"w1"}', '{"w1", "w2"}'] if tier == "quick" else ['{"w1"}', '{"w1", "w2"}', '{"w1", "w2", "w3"}']):
        cfg = write_cfg("sched_%d" % workers.count("w"), SCHED_CFG.format(workers=workers, nonotify="FALSE"))
        r = run_tlc("MC_sched", cfg, workers=NCPU // 2, timeout=1800)
        if r["violated"]:
            sys.stderr.write(r["out"][-3000:])
            raise MachineryError("Scheduler.tla: %s violated" % r["violated"])
        jobs.append(tlc_job_summary(r))
    cfg = write_cfg("sched_mut", SCHED_CFG.format(workers='{"w1", "w2"}', nonotify="TRUE"))
    r = run_tlc("MC_sched", cfg, workers=NCPU // 2, timeout=900)
    j = tlc_job_summary(r)
    j["mutant"] = "NoNotify"
    j["rejected_by"] = r["violated"]
    jobs.append(j)
    if not r["violated"]:
        raise MachineryError("Scheduler.tla: model mutant NoNotify not rejected")
    log("Scheduler.tla: %d jobs; mutant NoNotify -> %s" % (len(jobs), r["violated"]))
    # request histories
    cfg = write_cfg("req_emit", REQ_CFG.format(maxlen=2 if tier == "quick" else 3))
    r = run_tlc("MC_req", cfg, workers=NCPU // 2, timeout=1800)
    lines = extract_replay_lines(r["out"])
    if not lines:
        raise MachineryError("no request histories emitted")
    jobs.append(tlc_job_summary(r))
    d = os.path.join(WORK, "req")
    os.makedirs(d, exist_ok=True)
    path = os.path.join(d, "reqs_%d.ndjson" % os.getpid())
    with open(path, "w") as f:
        f.write("\n".join(lines) + "\n")
    results = []
    for threads in (1, 2):
        def mk(i, n, out, skip, threads=threads):
            return [LVH, "reqseq", "--in", path, "--out", out, "--shard", str(i), "--of", str(n), "--skip", str(skip), "--threads", str(threads), "--combine", "1"]
        t = time.time()
        rs = run_shards(mk, NCPU, os.path.join(d, "out_t%d_%d" % (threads, os.getpid())), timeout=3000)
        log("request histories with %d worker thread(s): %d in %.0fs" % (threads, len(rs), time.time() - t))
        for x in rs:
            x["threads"] = threads
            x["hist"] = lines[x["idx"]]
        results += rs
    violations, known_hits = [], []
    calls = 0
    nontrivial = set()
    for x in results:
        if x.get("process_died"):
            p = save_replay("C11", len(violations), {"kind": "req", "hist": json.loads(x["hist"]), "threads": x["threads"]})
            violations.append(("process died while serving request history %s" % x["hist"], p))
            continue
        calls += x.get("calls", 0)
        h = json.loads(x["hist"])
        if any(c.startswith("E_") for cl in h["clients"] for c in cl):
            nontrivial.add((x["idx"], x["threads"]))
        for v in x["violations"]:
            kf = match_known("C11", v, x.get("panics", []))
            if kf:
                known_hits.append(kf)
                continue
            p = save_replay("C11", len(violations), {"kind": "req", "hist": h, "threads": x["threads"]})
            violations.append(("%s (threads=%d, history %s): %s | panics %s" % (v["oracle"], x["threads"], x["hist"], v["what"], x.get("panics", [])[:2]), p))
    # flush / compaction encoding branches: the history replays, judged by "every call completes"
    hpath, behaviours, ej = histcheck.emit_behaviours("C11", 4 if tier == "quick" else 5, 3)
    jobs.append(ej)
    hres = []
    for tag, variants, flags in [("f0", [seed()], ["--combine", "0", "--threads", "1"])] + ([] if tier == "quick" else [("f1", [seed() + 1, seed() + 2], ["--combine", "1"])]):
        for x in histcheck.replay(hpath, "C11_" + tag, variants, flags):
            x["cfgflags"] = flags
            if not x.get("process_died"):
                x["behaviour"] = behaviours[x["idx"]]
            hres.append(x)
    sub = [l for l in behaviours if histcheck.kf_relevant(l)][:40]
    kpath = hpath + ".kf"
    with open(kpath, "w") as f:
        f.write("\n".join(sub) + "\n")
    for x in histcheck.replay(kpath, "C11_kf", [histcheck.KF_HEX, histcheck.KF_LZ4STR], ["--combine", "0"]):
        x["cfgflags"] = ["--combine", "0"]
        if not x.get("process_died"):
            x["behaviour"] = sub[x["idx"]]
        hres.append(x)
    hsteps = 0
    for x in hres:
        if x.get("process_died"):
            p = save_replay("C11", len(violations), {"kind": "hist-died", "idx": x["idx"]})
            violations.append(("history replay process died at behaviour %d" % x["idx"], p))
            continue
        hsteps += x["steps_run"]
        for v in x["violations"]:
            if not histcheck.relevant("C11", v):
                continue
            v["variant"] = x["variant"]
            kf = match_known("C11", v, x.get("panics", []))
            if kf:
                known_hits.append(kf)
                continue
            p = save_replay("C11", len(violations), {"kind": "hist", "behaviour": json.loads(x["behaviour"]), "variant": x["variant"], "cfgflags": x["cfgflags"]})
            violations.append(("%s step %d (%s): %s | panics %s" % (v["oracle"], v["step"], v["op"], v["what"], x.get("panics", [])[:2]), p))
    coverage = {
        "states": sum(j["distinct"] for j in jobs), "transitions": sum(j["states"] for j in jobs),
        "traces_validated_against_impl": len([x for x in results if "calls" in x]) + len([x for x in hres if "steps_run" in x]),
        "samples": [json.loads(l) for l in lines[len(lines) // 3: len(lines) // 3 + 3]],
        "evaluations": calls + hsteps, "distinct_nontrivial": len(nontrivial),
        "rule": "every assignment of request sequences over 17 request classes (2 valid queries, 12 failing / refused statements, ingest, force_flush, "
                "table_stats) to 1..2 clients with the bounded total length, replayed with 1 and 2 worker threads; after every request a canary "
                "(COUNT query, one-row ingest, every third step a force_flush) and a check that no thread of the database panicked; non-trivial = "
                "the history contains at least one failing request; plus the sequential history replays for the flush/compaction branches",
        "jobs": jobs, "exhaustive": True,
    }
    write_evidence("C11", tier, "model_checking", coverage,
                   ["deadline 20 s per call (3 s once a database thread has panicked)", "Scheduler.tla has no worker-death step: a panic observed in a database thread is itself a violation"],
                   time.time() - t0, len(violations))
    finish("C11", violations, known_hits)


def replay_single(path):
    payload = json.load(open(path))
    if payload["kind"] == "hist":
        return histcheck.replay_single("C11", path)
    d = os.path.join(WORK, "req")
    os.makedirs(d, exist_ok=True)
    inp = os.path.join(d, "single_%d.ndjson" % os.getpid())
    out = inp + ".out"
    with open(inp, "w") as f:
        f.write(json.dumps(payload["hist"]) + "\n")
    if os.path.exists(out):
        os.remove(out)
    subprocess.run([LVH, "reqseq", "--in", inp, "--out", out, "--threads", str(payload["threads"]), "--combine", "1"], env=dict(os.environ, TMPDIR="/dev/shm"))
    bad = [v for l in open(out) for v in json.loads(l).get("violations", [])]
    for b in bad:
        print(json.dumps(b)[:400])
    if bad:
        print("VIOLATION property=C11 replay=%s" % path)
        sys.exit(1)
    sys.exit(0)
