"""Shared machinery of the checks: building the harness, running TLC, sharded replays,
known-finding matching, evidence files.  Exit codes: 0 held, 1 VIOLATION, 2 machinery error."""
import glob
import json
import os
import re
import subprocess
import sys
import time

VERIF = os.path.dirname(os.path.dirname(os.path.abspath(__file__)))
SPEC = os.path.join(VERIF, "spec")
HARNESS = os.path.join(VERIF, "harness")
WORK = os.path.join(VERIF, "work")
LVH = os.path.join(HARNESS, "target", "debug", "lvh")
TLA_CP = "/opt/veriftools/tla/tla2tools.jar:/opt/veriftools/tla/CommunityModules-deps.jar"
NCPU = os.cpu_count() or 8


class MachineryError(Exception):
    pass


def log(msg):
    print("[check] " + msg, file=sys.stderr, flush=True)


def seed():
    try:
        return int(os.environ.get("VERIF_SEED", "0"))
    except ValueError:
        return 0


def build_harness():
    """cargo build of the harness (path dependency on /repo, hooks on). Always from the current tree."""
    t = time.time()
    env = dict(os.environ, CARGO_NET_OFFLINE="true")
    p = subprocess.run(["cargo", "build", "--offline"], cwd=HARNESS, env=env,
                       stdout=subprocess.PIPE, stderr=subprocess.STDOUT, text=True)
    if p.returncode != 0:
        sys.stderr.write(p.stdout[-6000:])
        raise MachineryError("harness build failed")
    log("harness built in %.0fs" % (time.time() - t))


def write_cfg(name, text):
    d = os.path.join(WORK, "cfg")
    os.makedirs(d, exist_ok=True)
    p = os.path.join(d, name + ".cfg")
    with open(p, "w") as f:
        f.write(text)
    return p


def run_tlc(module, cfg_path, workers=8, timeout=900, extra=None, xmx="8g", env_extra=None, java_opts=None):
    """Runs TLC on spec/mc/<module>.tla with the given cfg. Returns dict(states, distinct, depth, out, ok, violated)."""
    meta = os.path.join(WORK, "tlc", os.path.basename(cfg_path)[:-4] + "_%d" % os.getpid())
    os.makedirs(meta, exist_ok=True)
    cmd = ["timeout", str(timeout), "java", "-XX:+UseParallelGC", "-Xmx" + xmx, "-Xss512m", "-DTLA-Library=" + SPEC]
    if java_opts:
        cmd += java_opts
    cmd += ["-cp", TLA_CP, "tlc2.TLC", "-workers", str(workers), "-metadir", meta, "-cleanup",
            "-noGenerateSpecTE", "-config", cfg_path]
    if extra:
        cmd += extra
    cmd += [os.path.join(SPEC, "mc", module + ".tla")]
    env = dict(os.environ)
    if env_extra:
        env.update(env_extra)
    t = time.time()
    p = subprocess.run(cmd, cwd=os.path.join(SPEC, "mc"), stdout=subprocess.PIPE, stderr=subprocess.STDOUT, text=True, env=env)
    out = p.stdout
    subprocess.run(["rm", "-rf", meta])
    res = {"module": module, "cfg": os.path.basename(cfg_path), "wall_s": round(time.time() - t, 1), "out": out,
           "states": 0, "distinct": 0, "depth": 0, "rc": p.returncode}
    m = re.search(r"(\d+) states generated, (\d+) distinct states found", out)
    if m:
        res["states"], res["distinct"] = int(m.group(1)), int(m.group(2))
    m = re.search(r"depth of the complete state graph search is (\d+)", out)
    if m:
        res["depth"] = int(m.group(1))
    res["violated"] = None
    m = re.search(r"Error: Invariant (\S+) is violated", out)
    if m:
        res["violated"] = m.group(1)
    m = re.search(r"Error: Action property (\S+) is violated", out)
    if m:
        res["violated"] = m.group(1)
    m = re.search(r"Temporal propert(?:y|ies) (.*?) (?:was|were) violated", out)
    if m:
        res["violated"] = "temporal:" + m.group(1)
    elif "Temporal properties were violated" in out:
        res["violated"] = "temporal"
    res["completed"] = "Model checking completed. No error has been found." in out or "Finished computing" in out and "Error" not in out
    if p.returncode == 124:
        raise MachineryError("TLC timed out on %s" % cfg_path)
    if res["violated"] is None and not res["completed"] and "-simulate" not in (extra or []):
        sys.stderr.write(out[-4000:])
        raise MachineryError("TLC failed on %s (rc=%d)" % (cfg_path, p.returncode))
    return res


def tlc_job_summary(r):
    return {k: r[k] for k in ("module", "cfg", "states", "distinct", "depth", "wall_s")}


def extract_replay_lines(out):
    """`<<"REPLAY", "json">>` lines printed by an emission invariant -> list of json strings"""
    lines = []
    for l in out.splitlines():
        l = l.strip()
        if l.startswith('<<"REPLAY", '):
            i = l.index(', "') + 2
            lines.append(json.loads(l[i:-2]))
    return lines


def run_shards(make_cmd, nshards, out_prefix, timeout=3600):
    """Runs nshards processes `make_cmd(i, n, outfile)`; a shard that dies is restarted after the
    behaviour it was working on (attributed to that behaviour). Returns list of parsed result lines."""
    os.makedirs(os.path.dirname(out_prefix), exist_ok=True)
    outs = [out_prefix + "_%d.ndjson" % i for i in range(nshards)]
    for o in outs:
        if os.path.exists(o):
            os.remove(o)
    procs = {}
    skips = [0] * nshards
    crashes = []
    env = dict(os.environ, TMPDIR=os.environ.get("LVH_TMPDIR", "/dev/shm" if os.path.isdir("/dev/shm") else "/tmp"))
    for i in range(nshards):
        procs[i] = subprocess.Popen(make_cmd(i, nshards, outs[i], 0), env=env, stdout=subprocess.DEVNULL, stderr=subprocess.DEVNULL)
    deadline = time.time() + timeout
    while procs:
        time.sleep(0.2)
        for i, p in list(procs.items()):
            rc = p.poll()
            if rc is None:
                if time.time() > deadline:
                    p.kill()
                    raise MachineryError("replay shard %d timed out" % i)
                continue
            del procs[i]
            done = False
            last_begin = None
            if os.path.exists(outs[i]):
                for l in open(outs[i]):
                    try:
                        r = json.loads(l)
                    except ValueError:
                        continue
                    if "shard_done" in r:
                        done = True
                    if r.get("begin"):
                        last_begin = r["idx"]
            if not done:
                if last_begin is None or last_begin < skips[i]:
                    raise MachineryError("replay shard %d died before starting a behaviour (rc=%s)" % (i, rc))
                crashes.append({"idx": last_begin, "rc": rc})
                with open(outs[i], "a") as f:
                    f.write(json.dumps({"idx": last_begin, "process_died": True, "rc": rc}) + "\n")
                skips[i] = last_begin + 1
                procs[i] = subprocess.Popen(make_cmd(i, nshards, outs[i], skips[i]), env=env, stdout=subprocess.DEVNULL, stderr=subprocess.DEVNULL)
    results = []
    for o in outs:
        for l in open(o):
            try:
                r = json.loads(l)
            except ValueError:
                continue
            if "shard_done" in r or r.get("begin"):
                continue
            results.append(r)
    return results


# ---------------------------------------------------------------------------------------------
# known findings

def load_known_findings():
    p = os.path.join(VERIF, "known_findings.json")
    if not os.path.exists(p):
        return []
    return json.load(open(p))["findings"]


def match_known(prop, violation, panics):
    """A violation is attributed to a known finding only if every field of the finding's signature
    matches: property, oracle, op, and a regex over the recorded panic messages / the description."""
    for f in load_known_findings():
        if f.get("status") != "known":
            continue
        if prop not in f["properties"]:
            continue
        sig = f["signature"]
        if "oracle" in sig and sig["oracle"] != violation.get("oracle"):
            continue
        if "op" in sig and sig["op"] != violation.get("op"):
            continue
        if "what_re" in sig and not re.search(sig["what_re"], violation.get("what", "")):
            continue
        if "panic_re" in sig and not any(re.search(sig["panic_re"], p) for p in panics):
            continue
        if "variant" in sig and sig["variant"] != violation.get("variant"):
            continue
        return f
    return None


# ---------------------------------------------------------------------------------------------
# evidence / verdict

def write_evidence(prop, tier, level, coverage, assumptions, wall_s, violations):
    os.makedirs(os.path.join(VERIF, "evidence"), exist_ok=True)
    ev = {"property_id": prop, "tier": tier, "seed": seed(), "level": level, "coverage": coverage,
          "assumptions": assumptions, "wall_s": round(wall_s, 1), "violations": violations}
    with open(os.path.join(VERIF, "evidence", prop + ".json"), "w") as f:
        json.dump(ev, f, indent=1, sort_keys=True)
        f.write("\n")


def save_replay(prop, n, payload):
    d = os.path.join(WORK, "replays")
    os.makedirs(d, exist_ok=True)
    p = os.path.join(d, "%s-%d.json" % (prop, n))
    with open(p, "w") as f:
        json.dump(payload, f)
    return p


def finish(prop, violations, known_hits):
    """violations: list of (description, replay_path). Prints the verdict lines and exits."""
    seen = set()
    for f in known_hits:
        if f["id"] in seen:
            continue
        seen.add(f["id"])
        print("KNOWN-FINDING: property=%s %s: %s" % (prop, f["id"], f["what"]))
    if violations:
        for what, path in violations[:10]:
            print("VIOLATION property=%s replay=%s" % (prop, path))
            print("  " + what[:400])
        sys.exit(1)
    print("OK property=%s" % prop)
    sys.exit(0)
