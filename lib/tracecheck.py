"""B2: trace validation. Raw traces recorded by the hooks are normalised and checked with TLC against
Trace_LocustStore.tla (every event an enabled step with the logged arguments; all invariants evaluated
in every state)."""
import json
import os
import re
import subprocess
import time

from common import *
import tracenorm

TRACE_CFG = """SPECIFICATION TSpec
CONSTANTS
  UT = {ut}
  Shapes = {{}}
  SubKeys = {{"all"}}
  Clients = {{"c1"}}
  QClients = {{}}
  MaxReq = 1000000
  MaxWal = 1000000
  MaxWalFiles = 1000000
  CombineMode = "any"
  FsSteps = FALSE
  Dev = {{}}
  Avoid = {{}}
INVARIANTS ContentOK Tiles ColumnsKept CatalogueExactlyOnce NoFailure Durable WalAccounting
POSTCONDITION Accepted
CHECK_DEADLOCK FALSE
"""

# which property an event's rejection speaks about
EVENT_PROP = {
    "Snapshot": "C10", "Batch": "C07", "CompactSwap": "C07", "Freeze": "C07", "FlushTable": "C07", "Evict": "C07",
    "CompactNames": "C13", "IngestCatalogue": "C13", "RecUp": "C08", "RecTables": "C08", "RecReplay": "C08",
    "RecMeta": "C08", "RecWal": "C08", "PersistMeta": "C08", "WalAssign": "C08", "WalStored": "C08",
    "DeleteWal": "C18", "DeleteOrphan": "C18", "IngestLock": "C18", "IngestAck": "C18", "FlushFreeze": "C18",
    "FlushLock": "C18", "FlushDone": "C18", "CompactMs": "C18", "MsInsert": "C18", "PersistSub": "C18",
    "ApplyTable": "C07", "FlushTrigger": "C11", "ForceFlushCall": "C11",
}
INV_PROP = {"ContentOK": "C07", "Tiles": "C07", "ColumnsKept": "C13", "CatalogueExactlyOnce": "C13", "NoFailure": "C11",
            "Durable": "C08", "WalAccounting": "C18"}


def validate(raw_path, timeout=600):
    """returns dict(events, accepted, rejected_at, event, prop, invariant, norm_path)"""
    norm = raw_path + ".norm"
    n, uts = tracenorm.normalise(raw_path, norm)
    cfg = write_cfg("trace_" + os.path.basename(raw_path), TRACE_CFG.format(ut="{" + ", ".join('"%s"' % u for u in (uts or ["ta"])) + "}"))
    meta = os.path.join(WORK, "tlc", "tv_%d_%s" % (os.getpid(), os.path.basename(raw_path)))
    env = dict(os.environ, TRACE=norm, JAVA_TOOL_OPTIONS="-Xss1g -Dtlc2.tool.queue.IStateQueue=StateDeque")
    cmd = ["timeout", str(timeout), "java", "-XX:+UseParallelGC", "-Xmx4g", "-DTLA-Library=" + SPEC, "-cp", TLA_CP, "tlc2.TLC",
           "-workers", "1", "-metadir", meta, "-cleanup", "-noGenerateSpecTE", "-config", cfg,
           os.path.join(SPEC, "mc", "Trace_LocustStore.tla")]
    p = subprocess.run(cmd, cwd=os.path.join(SPEC, "mc"), env=env, stdout=subprocess.PIPE, stderr=subprocess.STDOUT, text=True)
    subprocess.run(["rm", "-rf", meta])
    out = p.stdout
    res = {"events": n, "accepted": False, "norm_path": norm, "raw_path": raw_path, "states": 0}
    m = re.search(r"(\d+) states generated, (\d+) distinct states found", out)
    if m:
        res["states"] = int(m.group(2))
    if "Model checking completed. No error has been found." in out:
        res["accepted"] = True
        return res
    m = re.search(r"Invariant (\S+) is violated", out)
    if m:
        res["invariant"] = m.group(1)
        res["prop"] = INV_PROP.get(m.group(1), "C07")
        res["what"] = "invariant %s of the specification is violated along the recorded trace" % m.group(1)
        return res
    m = re.search(r'"TRACE-REJECTED",\s*(\d+),\s*(\d+),', out)
    if m:
        k = int(m.group(1))
        lines = open(norm).read().splitlines()
        ev = json.loads(lines[k - 1]) if k - 1 < len(lines) else {"ev": "end"}
        res["rejected_at"] = k
        res["event"] = ev
        res["prop"] = EVENT_PROP.get(ev["ev"], "C07")
        res["what"] = "event %d of %d is not a step the specification allows: %s" % (k, n, json.dumps(ev)[:300])
        return res
    if p.returncode == 124:
        raise MachineryError("trace validation timed out on %s" % raw_path)
    sys.stderr.write(out[-3000:])
    raise MachineryError("trace validation failed to run on %s" % raw_path)


def record_and_validate(behaviours_path, tag, flags, variants, nshards=None, per_shard=6):
    """records traces of the first `per_shard` behaviours of each shard and validates them"""
    nshards = nshards or NCPU
    d = os.path.join(WORK, "trace")
    os.makedirs(d, exist_ok=True)
    lines = open(behaviours_path).read().splitlines()
    # a spread sample: every k-th behaviour
    want = nshards * per_shard
    step = max(1, len(lines) // want)
    sample = lines[::step][:want]
    spath = os.path.join(d, "sample_%s_%d.ndjson" % (tag, os.getpid()))
    with open(spath, "w") as f:
        f.write("\n".join(sample) + "\n")
    procs = []
    env = dict(os.environ, TMPDIR="/dev/shm")
    raws = []
    for i in range(nshards):
        raw = os.path.join(d, "raw_%s_%d_%d.ndjson" % (tag, os.getpid(), i))
        raws.append(raw)
        procs.append(subprocess.Popen([LVH, "record-hist", "--in", spath, "--out", raw, "--shard", str(i), "--of", str(nshards),
                                       "--variants", ",".join(str(v) for v in variants)] + flags, env=env,
                                      stdout=subprocess.DEVNULL, stderr=subprocess.DEVNULL))
    for p in procs:
        p.wait()
    results = []
    t = time.time()
    import concurrent.futures
    with concurrent.futures.ThreadPoolExecutor(max_workers=max(2, NCPU // 2)) as ex:
        for r in ex.map(validate, [r for r in raws if os.path.exists(r) and os.path.getsize(r) > 0]):
            results.append(r)
    log("trace validation %s: %d traces, %d events, %d accepted in %.0fs" % (
        tag, len(results), sum(r["events"] for r in results), sum(1 for r in results if r["accepted"]), time.time() - t))
    return results, sample
