"""C17: Http.tla checked by TLC (safety + liveness, two clients; the repaired deviation QueryEndpointUnwraps as a
model mutant); sequential schedules printed by TLC are replayed on a real server on a loopback port and every answer
is compared with the embedded API on the same Arc<LocustDB>; traces of concurrent clients are validated against the
specification by TLC (Trace_Http.tla)."""
import json
import os
import time

from common import *

MC = """SPECIFICATION Spec
CONSTANTS
  Clients = {clients}
  MaxInserts = {ins}
  MaxReqs = {reqs}
  MaxStatements = {ms}
  Dev = {dev}
INVARIANTS AnswersOK ErrorsMapped InsertsOK Accounting StaysAlive {emit}
{props}
CHECK_DEADLOCK FALSE
"""
TRACE = """SPECIFICATION TSpec
CONSTANTS
  Clients = {"c1", "c2", "c3"}
  MaxInserts = 100000
  MaxReqs = 100000
  MaxStatements = 1
  Dev = {}
INVARIANTS NotDone AnswersOK ErrorsMapped InsertsOK
CONSTRAINT Track
POSTCONDITION Post
CHECK_DEADLOCK FALSE
"""


def validate(trace):
    r = run_tlc("Trace_Http", write_cfg("c17_trace", TRACE), workers=1, timeout=1200, xmx="4g", env_extra={"TRACE": trace},
                java_opts=["-Dtlc2.tool.queue.IStateQueue=StateDeque"])
    if r["violated"] == "NotDone":
        return None, r
    if r["violated"]:
        return "the recorded trace violates %s of Http.tla" % r["violated"], r
    m = re.search(r'<<\s*"MAXL",\s*(\d+),\s*(.*?)>>', r["out"], re.S)
    return "the recorded trace is not a behaviour of Http.tla: matched %s events, next event %s" % (
        m.group(1) if m else "?", " ".join(m.group(2).split())[:300] if m else "?"), r


def run(prop, tier, replay_path=None):
    t0 = time.time()
    build_harness()
    d = os.path.join(WORK, "c17")
    os.makedirs(d, exist_ok=True)
    if replay_path:
        payload = json.load(open(replay_path))
        if payload.get("trace"):
            why, _ = validate(payload["trace"])
            if why:
                print(why)
                print("VIOLATION property=C17 replay=%s" % replay_path)
                sys.exit(1)
            sys.exit(0)
        out = os.path.join(d, "single_%d.out" % os.getpid())
        if os.path.exists(out):
            os.remove(out)
        subprocess.run([LVH, "c17", "--mode", "replay", "--in", payload["src"], "--out", out, "--only", str(payload["case"])], env=dict(os.environ, TMPDIR="/dev/shm"))
        bad = [v for l in open(out) for v in json.loads(l).get("violations", [])]
        for b in bad[:5]:
            print(json.dumps(b)[:500])
        if bad:
            print("VIOLATION property=C17 replay=%s" % replay_path)
            sys.exit(1)
        sys.exit(0)
    quick = tier == "quick"
    jobs = []
    # 1. the design: two connections, safety and liveness
    r = run_tlc("MC_http", write_cfg("c17_mc", MC.format(clients='{"c1", "c2"}', ins=2, reqs=3, ms=1 if quick else 2, dev="{}", emit="", props="PROPERTIES Answered")),
                workers=NCPU // 2, timeout=3000)
    if r["violated"]:
        raise MachineryError("Http.tla: %s violated" % r["violated"])
    jobs.append(tlc_job_summary(r))
    # 2. vacuity guard: the repaired deviation must violate ErrorsMapped
    r = run_tlc("MC_http", write_cfg("c17_dev", MC.format(clients='{"c1"}', ins=1, reqs=2, ms=1, dev='{"QueryEndpointUnwraps"}', emit="", props="")), workers=2, timeout=600)
    if r["violated"] != "ErrorsMapped":
        raise MachineryError("model mutant QueryEndpointUnwraps is not caught by ErrorsMapped (%r)" % r["violated"])
    # 3. sequential schedules for the replay
    r = run_tlc("MC_http", write_cfg("c17_emit", MC.format(clients='{"c1"}', ins=2, reqs=2 if quick else 3, ms=3, dev="{}", emit="Emit", props="")), workers=NCPU // 2, timeout=3000)
    if r["violated"]:
        raise MachineryError("Http.tla: %s violated" % r["violated"])
    lines = extract_replay_lines(r["out"])
    if not lines:
        raise MachineryError("MC_http emitted nothing")
    src = os.path.join(d, "schedules.ndjson")
    with open(src, "w") as f:
        f.write("\n".join(lines) + "\n")
    jobs.append(tlc_job_summary(r))
    log("MC_http: %d schedules" % len(lines))

    def mk(i, n, out, skip):
        return [LVH, "c17", "--mode", "replay", "--in", src, "--out", out, "--shard", str(i), "--of", str(n)]
    rs = run_shards(mk, 8, os.path.join(d, "out_%d" % os.getpid()), timeout=3000)
    violations, known = [], []
    units = requests = 0
    statuses = {}

    def add(v, payload):
        if v["oracle"] == "machinery":
            raise MachineryError(v["what"])
        kf = match_known("C17", v, v.get("panics", []))
        if kf:
            known.append(kf)
            return
        p = save_replay("C17", len(violations), payload)
        violations.append(("%s: %s" % (v["oracle"], v["what"]), p))
    for x in rs:
        if x.get("process_died"):
            p = save_replay("C17", len(violations), {"src": src, "case": 0})
            violations.append(("C17 replay process died", p))
            continue
        units += x["units"]
        requests += x["requests"]
        for k, v in x.get("statuses", {}).items():
            statuses[k] = statuses.get(k, 0) + v
        for v in x["violations"]:
            add(v, {"src": src, "case": v.get("case", 0)})
    log("replayed %d schedules, %d requests, statuses %r" % (units, requests, statuses))
    for st in ("200", "400", "500", "501"):
        if not statuses.get(st):
            raise MachineryError("no request was answered with HTTP %s: the query classes do not reach every error mapping" % st)
    # 4. concurrent clients, validated against the specification
    trace = os.path.join(d, "trace_%d.ndjson" % os.getpid())
    sout = os.path.join(d, "stress_%d.out" % os.getpid())
    if os.path.exists(sout):
        os.remove(sout)
    runs = 6 if quick else 40
    p = subprocess.run([LVH, "c17", "--mode", "stress", "--out", sout, "--trace", trace, "--runs", str(runs), "--clients", "3", "--reqs", "6" if quick else "8", "--seed", str(seed())],
                       env=dict(os.environ, TMPDIR="/dev/shm"), stdout=subprocess.DEVNULL, stderr=subprocess.DEVNULL, timeout=3000)
    sres = [json.loads(l) for l in open(sout) if '"units"' in l]
    if not sres:
        raise MachineryError("stress run produced no result")
    events = sres[0]["events"]
    for v in sres[0]["violations"]:
        add(v, {"trace": trace})
    why, tr = validate(trace)
    jobs.append(tlc_job_summary(tr))
    if why:
        keep = os.path.join(WORK, "replays", "C17-trace-%d.ndjson" % len(violations))
        os.makedirs(os.path.dirname(keep), exist_ok=True)
        subprocess.run(["cp", trace, keep])
        p = save_replay("C17", len(violations), {"trace": keep})
        violations.append((why, p))
    log("stress: %d runs, %d events, trace %s" % (runs, events, "accepted" if not why else "REJECTED"))
    coverage = {
        "states": sum(j["distinct"] for j in jobs), "transitions": sum(j["states"] for j in jobs),
        "traces_validated_against_impl": units + runs, "evaluations": requests + events,
        "http_statuses_seen": statuses, "samples": [json.loads(lines[len(lines) // 2])],
        "rule": "Http.tla: 2 connections, <= %d requests, 2 inserts, 5 endpoints x 5 outcome classes: AnswersOK (a query sees every batch acknowledged before it was sent and nothing sent after "
                "its answer; 200 iff the embedded query succeeds), ErrorsMapped, InsertsOK, Accounting and liveness Answered. Every sequential schedule of <= %d requests TLC prints is sent to a "
                "real server (insert_bin; /query, /query_cols, /multi_query_cols JSON / binary / binary+xor) and each answer is compared with run_query on the same Arc<LocustDB> (column names, order, "
                "values; integers beyond 2^53, NULL, strings with quotes and non-ASCII, mixed columns, infinities in the binary encodings); a failing query must get the status map_err_response assigns to "
                "the embedded error; after every request GET /hey must answer. %d concurrent runs (3 clients) are recorded and validated by TLC against Http.tla with Serve as silent step."
                % (3 if quick else 4, 2 if quick else 3, runs),
        "jobs": jobs, "exhaustive": True,
    }
    write_evidence("C17", tier, "model_checking", coverage,
                   ["the data model of Http.tla is the number of ingested batches; values are compared against the embedded API on the same database, not against the specification",
                    "non-finite floats are excepted in JSON answers (the property says so); an all-NULL column rendered as its length is accepted",
                    "send events are recorded before the request leaves and receive events after the answer arrived, so the real-time intervals used by AnswersOK are only widened"],
                   time.time() - t0, len(violations))
    finish("C17", violations, known)
