#!/usr/bin/env python3
"""Regenerates MANIFEST.json from the table below (single source of truth for the interface file)."""
import json, os
V = os.path.dirname(os.path.dirname(os.path.abspath(__file__)))
BASE = "cd /repo && cargo nextest run --workspace --no-fail-fast --tool-config-file pb:/w/lib/nextest.toml --profile pb --test-threads 8 --offline || cargo test --workspace --no-fail-fast --offline"
CHECKS = {
 "C07": dict(technique="TLA+ spec (LocustStore.tla) model-checked with TLC; every bounded API history emitted by TLC replayed against the real database with the spec's content compared after each step",
             text="TLC checks ContentOK/Tiles/ColumnsKept over all sequential histories of the bounded length (and rejects a model mutant); every emitted history over {ingest(4 shapes), force_flush, evict_cache, restart} is replayed under three compaction modes and rotating value classes, comparing full table content, SELECT * and the catalogue after every step. Exhaustive within the bounds, so the right level is model checking bound to the code by behaviour replay.",
             note="bounds: <=4 (quick) / <=5 (thorough) operations, 2 user tables, 3 columns; compaction choice is not predicted; compressed packed-string and hex-packed columns are known findings KF1/KF2 confirmed separately", ref="5 C07, 3.1, 4.1"),
 "C08": dict(technique="TLA+ spec (LocustStore.tla) invariant Durable + model mutant; TLC-emitted histories with restart anywhere replayed against the real database",
             text="TLC checks in every state that what is on disk recovers to exactly the acknowledged requests (Durable) and that a cursor mutant is rejected; every emitted history (restart at any position, repeated) is replayed and the reopened database compared row by row with the spec's logical content.",
             note="clean restarts only (crashes are C09); drop() of the handle is taken as the close; background flush disabled by large WAL limits in quick tier", ref="5 C08, 3.1"),
 "C13": dict(technique="TLA+ spec (LocustStore.tla) invariant CatalogueExactlyOnce/ColumnsKept + model mutant; TLC-emitted histories with varying column sets replayed, catalogue tables and SELECT * compared",
             text="The catalogue sub-state (lazy column-name loading, _meta_tables, _meta_columns_*) is explicit in the spec; TLC checks each name is recorded exactly once in every state and that the historical seeding typo is rejected; replays compare SELECT *, the two catalogue tables and per-column NULL padding after every step, with name pools containing case pairs, non-ASCII and >64-byte names.",
             note="column pool of 3 names per table, 4 ingest shapes; name classes come from the value-class rotation", ref="5 C13"),
 "C18": dict(technique="TLA+ spec (LocustStore.tla) invariants QuiescentDisk/WalAccounting; replay compares the directory listing with the catalogue accessor after every force_flush",
             text="TLC checks that a completed flush leaves exactly catalogue + named partition files, no log segments, no temp files and a zero accounted log size in every reachable quiescent state; the replay lists the real directory after each force_flush and compares it with the files named by the in-memory catalogue (read-only accessor), wal_size and the unflushed range.",
             note="blocking-ingestion liveness is checked in thorough tier only; file names are computed through the real sanitize/partition_filename wrappers", ref="5 C18"),
 "C09": dict(technique="TLA+ spec (LocustStore.tla, file-system micro-steps, Crash anywhere incl. during recovery) model-checked with TLC; crash images at every primitive file-system effect of TLC-emitted workloads reopened and compared with the spec's admissible contents",
             text="TLC checks Durable/ContentOK/NoFailure with create/write/rename micro-steps and up to two crashes anywhere (also inside recovery), rejects the historical temp-file mutant, and (thorough) checks RecoveryTerminates under fairness. The binding photographs the real directory after every file-system effect (plus torn temp files), reopens each image under a deadline, compares the content with {acknowledged, acknowledged + in-flight whole}, flushes, crashes the recovery again, and ingests into the recovered database.",
             note="loss of un-fsynced bytes is not simulated (directory copies see written data); partition-file temp steps are not modelled in the spec (unreferenced until the catalogue is stored)", ref="5 C09, 4.4"),
 "C10": dict(technique="TLA+ spec (LocustStore.tla) model-checked over all interleavings of ingest / flush+compaction / query / evict; query and second ingestion placed at every named sync point of the real code (schedule replay); recorded multi-threaded traces validated against the spec with TLC",
             text="TLC explores every interleaving at action granularity (ContentOK also half-way through an ingestion, SnapshotIsPrefix, NoFailure), reproduces the one known finding and rejects the evict-before-persist mutant. Binding B3 parks the flush / ingest / query thread at each of 21 sync points and runs the other operation exactly there (330 placements: 5 query kinds, with/without restart and second ingestion), checking the answer is a whole-request prefix, that the ingestion lock blocks exactly where the spec says and that everything completes. Binding B2 records randomised multi-threaded runs and validates every event, in particular every snapshot composition, against the spec.",
             note="windows without a sync label are reached only by the randomised driver; model bounds 1 table / 2 requests / 2 flushes; KF3 is a recorded known finding", ref="5 C10, 4.3, 4.4"),
 "C11": dict(technique="TLA+ spec (Scheduler.tla: task queue, workers, answer hand-over) model-checked with TLC incl. liveness; TLC-emitted request histories replayed against the real database under deadlines with a canary",
             text="TLC checks AnswerAtMostOnce, NoLostWakeup and, under weak fairness, EveryRequestAnswered / AllWorkersReturn for 1-2 workers and tasks with 0-3 partitions of which some fail, and rejects the no-notify mutant. Every request history TLC emits over 17 request classes (12 of them failing or refused statements) for 1-2 clients is replayed with 1 and 2 worker threads: each call must return within the deadline, failing requests must yield an error value, no database thread may panic, and a canary (query, ingest, periodic force_flush) must be served after every request. The sequential history replays of LocustStore.tla contribute the flush/compaction encoding branches.",
             note="a panic observed in any database thread counts as a violation even when the caller still got an answer; KF1/KF2/KF3 are recorded known findings", ref="5 C11, 3.2"),
}
PENDING = ["C01","C02","C03","C04","C05","C06","C09","C10","C11","C12","C14","C15","C16","C17"]
def main():
    checks=[]
    for pid,c in sorted(CHECKS.items()):
        checks.append({"property_id":pid,"quick_cmd":"./check %s --tier quick"%pid,"thorough_cmd":"./check %s --tier thorough"%pid,
          "evidence_file":"/verif/evidence/%s.json"%pid,"replay_cmd_template":"./check %s --replay {path}"%pid,"engine":"tlc+lvh",
          "level_claimed":{"category":c.get("category","model_checking"),"text":c["text"],"design_ref":c["ref"]},"level_note":c["note"],"technique":c["technique"]})
    m={"version":1,
       "setup_cmd":"cd /verif/harness && CARGO_NET_OFFLINE=true cargo build --offline && cd /verif && python3 lib/selfcheck.py",
       "hooks":{"guard":"locustdb_verif","enable":"RUSTFLAGS --cfg locustdb_verif via /verif/harness/.cargo/config.toml (path dependency on /repo)",
                "baseline_off_cmd":BASE,"source_commits":["a3fbbe8"],"add_only":True},
       "engines":[{"name":"tlc+lvh","path":"/verif/check","serves_properties":sorted(CHECKS),"kind_free_text":"TLA+ specifications in /verif/spec checked with TLC; Rust harness /verif/harness (lvh) replays TLC-emitted behaviours into LocustDB and validates recorded traces against the spec"}],
       "checks":checks,
       "notes":"Every check first rebuilds the harness from /repo's working tree (cargo build --offline, hooks on). Exit 2 = machinery error. known_findings.json lists recorded defects.",
       "not_applicable":[{"property_id":p,"reason":"check not built yet in this round (planned, see DESIGN.md section 13); not claimed"} for p in PENDING if p not in CHECKS]}
    json.dump(m,open(os.path.join(V,"MANIFEST.json"),"w"),indent=1); print("ok",len(checks))
main()
