"""C01: ColumnBuffer.tla (type lattice + presence) model-checked; every behaviour (sequence of batch
contributions to one column) replayed through the wire format and the row API under four layouts."""
import json
import os
import time

from common import *

CFG = """SPECIFICATION Spec
CONSTANTS
  MaxBatches = {n}
INVARIANTS EmitInv LengthOK
PROPERTIES Monotone
CHECK_DEADLOCK FALSE
"""


def run(prop, tier, replay_path=None):
    t0 = time.time()
    build_harness()
    if replay_path:
        return replay_single(replay_path)
    jobs, results = [], []
    plan = [(2, 1, 3), (3, 8, 1)] if tier == "quick" else [(2, 1, 8), (3, 1, 4)]
    d = os.path.join(WORK, "c01")
    os.makedirs(d, exist_ok=True)
    for nb, stride, variants in plan:
        cfg = write_cfg("colbuf_%d" % nb, CFG.format(n=nb))
        r = run_tlc("MC_colbuf", cfg, workers=4, timeout=1800)
        if r["violated"]:
            raise MachineryError("ColumnBuffer.tla: %s violated" % r["violated"])
        lines = extract_replay_lines(r["out"])[seed() % stride::stride]
        jobs.append(tlc_job_summary(r))
        path = os.path.join(d, "b%d_%d.ndjson" % (nb, os.getpid()))
        with open(path, "w") as f:
            f.write("\n".join(lines) + "\n")

        def mk(i, n, out, skip, path=path, variants=variants):
            return [LVH, "c01", "--in", path, "--out", out, "--shard", str(i), "--of", str(n), "--skip", str(skip), "--seed", str(seed()), "--variants", str(variants)]
        t = time.time()
        rs = run_shards(mk, NCPU, os.path.join(d, "out%d_%d" % (nb, os.getpid())), timeout=6000)
        log("ColumnBuffer behaviours of %d batches: %d behaviours, %d runs in %.0fs" % (nb, len(lines), len(rs), time.time() - t))
        for x in rs:
            x["src"] = path
            x["behaviour"] = lines[x["idx"]] if not x.get("process_died") else None
            results.append(x)
    violations, known_hits = [], []
    cells = runs = nontrivial = 0
    for x in results:
        if x.get("process_died"):
            p = save_replay("C01", len(violations), {"kind": "died", "idx": x["idx"]})
            violations.append(("replay process died at behaviour %d" % x["idx"], p))
            continue
        if x.get("skipped"):
            continue
        runs += 1
        cells += x.get("cells", 0)
        b = json.loads(x["behaviour"])
        if len(set(c["t"] for c in b["cells"])) > 1:
            nontrivial += 1
        for v in x["violations"]:
            v["op"] = "flush" if v.get("oracle") == "flush" else v.get("oracle")
            kf = None
            for f in load_known_findings():
                if f["id"] in ("KF1", "KF2") and re_search(f["signature"]["panic_re"], x.get("panics", [])):
                    kf = f
            if kf:
                known_hits.append(kf)
                continue
            p = save_replay("C01", len(violations), {"kind": "c01", "behaviour": b, "class": x["class"], "rep": x["rep"], "path": x["path"], "layout": x["layout"]})
            violations.append(("%s (%s path, layout %s, class %s, x%s): %s %s | panics %s" % (v["oracle"], x["path"], x["layout"], x["class"], x["rep"], v.get("sql", ""), v["what"], x.get("panics", [])[:1]), p))
    coverage = {
        "states": sum(j["distinct"] for j in jobs), "transitions": sum(j["states"] for j in jobs), "traces_validated_against_impl": runs,
        "samples": [json.loads(results[len(results) // 2]["behaviour"])] if results and results[len(results) // 2].get("behaviour") else [{"note": "see jobs"}],
        "evaluations": cells, "distinct_nontrivial": nontrivial,
        "rule": "every sequence of 2 (quick: plus every 8th of 3) batch contributions over 8 wire kinds x abstract lengths {1,2,4}; each replayed with rotating value class (8), "
                "repetition factor (1,7,8,9,63,64,65,300 - bitmap and batch boundaries), ingestion path (wire format / row API) and layout (buffer, flush per batch, "
                "flush + restart, WAL replay); evaluations = cells compared; non-trivial = the column receives more than one cell type (incl. NULL)",
        "jobs": jobs, "exhaustive": tier != "quick",
    }
    write_evidence("C01", tier, "model_checking", coverage,
                   ["CSV ingestion is not replayed (the row API and the wire format are)", "bit-level behaviour of lz4 / pco is exercised, not modelled"],
                   time.time() - t0, len(violations))
    finish("C01", violations, known_hits)


def re_search(pat, panics):
    import re
    return any(re.search(pat, p) for p in panics)


def replay_single(path):
    payload = json.load(open(path))
    d = os.path.join(WORK, "c01")
    os.makedirs(d, exist_ok=True)
    inp = os.path.join(d, "single_%d.ndjson" % os.getpid())
    with open(inp, "w") as f:
        f.write(json.dumps(payload["behaviour"]) + "\n")
    p = subprocess.run([os.path.join(HARNESS, "target", "debug", "c01one"), inp, "0", str(payload["class"]), str(payload["rep"]), payload["path"], str(payload["layout"])],
                       stdout=subprocess.PIPE, text=True, env=dict(os.environ, TMPDIR="/dev/shm"))
    print(p.stdout[:2000])
    r = json.loads(p.stdout.strip().splitlines()[-1])
    if r["violations"]:
        print("VIOLATION property=C01 replay=%s" % path)
        sys.exit(1)
    sys.exit(0)
