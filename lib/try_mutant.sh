#!/bin/bash
# usage: try_mutant.sh <patch> <check ids...> ; applies the patch to /repo, runs the quick checks, reverts
patch=$1; shift
cd /repo && git apply $patch || exit 3
for c in "$@"; do
  cd /verif && ./check $c --tier quick > /tmp/mut_try_$c.log 2>&1; echo "check $c rc=$?"; grep -E "^VIOLATION|^KNOWN|^OK" /tmp/mut_try_$c.log | head -3; grep -A1 "^VIOLATION" /tmp/mut_try_$c.log | sed -n 2p | cut -c1-300
done
cd /repo && git checkout -- . && git status --short | head -3
# the evidence files must describe the unchanged tree: drop what the trial wrote
cd /verif && git checkout -- evidence 2>/dev/null
