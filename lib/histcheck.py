"""C07 / C08 / C13 / C18 (and the sequential part of C11): LocustStore.tla under the sequential-API
driver MC_hist: TLC checks the invariants over all histories and emits every history with the
specification's content after each operation; the harness replays them against the real database."""
import json
import os
import time

from common import *

HIST_CFG = """SPECIFICATION SeqSpec
CONSTANTS
  UT = {{"ta", "tb"}}
  Shapes <- MCShapes
  SubKeys = {subkeys}
  Clients = {{"c1"}}
  QClients = {{}}
  MaxReq = {maxreq}
  MaxWal = 100
  MaxWalFiles = 100
  CombineMode = "{mode}"
  FsSteps = FALSE
  Dev = {dev}
  Avoid <- MCAvoid
  MaxOps = {maxops}
  Emit = {emit}
CONSTRAINT Bound
ACTION_CONSTRAINT Canon
{view}
INVARIANTS {invs}
CHECK_DEADLOCK FALSE
"""

ALL_INVS = "ContentOK Tiles ColumnsKept CatalogueExactlyOnce NoFailure Durable QuiescentDisk WalAccounting"

# which invariants carry which property (the others are still checked: they are cheap)
PROP_INVS = {
    "C07": ["ContentOK", "Tiles", "ColumnsKept"],
    "C08": ["Durable", "ContentOK"],
    "C13": ["CatalogueExactlyOnce", "ColumnsKept"],
    "C18": ["QuiescentDisk", "WalAccounting"],
    "C11": ["NoFailure"],
}

# model-level mutants: with the deviation on, TLC must find a violation of one of the listed invariants
PROP_MUTANTS = {
    "C13": [("MetaColumnsNameTypo", "always", ["ColumnsKept", "CatalogueExactlyOnce"])],
    "C08": [],   # the cursor mutant needs an ingestion that overlaps a flush: checked on MC_conc below
    "C07": [("MetaColumnsNameTypo", "always", ["ColumnsKept", "CatalogueExactlyOnce"])],
    "C18": [],
    "C11": [],
}


def hist_cfg(name, mode, maxops, maxreq, emit, dev="{}", subkeys='{"all"}', invs=ALL_INVS):
    return write_cfg(name, HIST_CFG.format(mode=mode, maxops=maxops, maxreq=maxreq, emit="TRUE" if emit else "FALSE",
                                           dev=dev, subkeys=subkeys, view="" if emit else "VIEW View",
                                           invs=("EmitInv " if emit else "") + invs))


LIVE_CFG = """SPECIFICATION %s
CONSTANTS
  UT = {"ta"}
  Shapes <- MCShapes
  SubKeys = {"all"}
  Clients = {"c1", "c2"}
  QClients = {"q1"}
  MaxReq = %d
  MaxWal = 0
  MaxWalFiles = 100
  CombineMode = "pairs"
  FsSteps = FALSE
  Dev = {}
  Avoid <- MCAvoid
INVARIANTS ContentOK NoFailure WalAccounting
PROPERTIES BlockedIngestProceeds EveryIngestAcked FlushTerminates
CHECK_DEADLOCK FALSE
"""


def model_jobs(prop, tier):
    jobs = []
    if tier == "quick":
        plan = [("any", 3, 3, '{"all"}')]
    else:
        plan = [("any", 4, 4, '{"all"}'), ("always", 5, 4, '{"k1", "k2"}'), ("pairs", 5, 4, '{"all"}')]
    for mode, maxops, maxreq, subkeys in plan:
        cfg = hist_cfg("hist_%s_%s_%d" % (prop, mode, maxops), mode, maxops, maxreq, False, subkeys=subkeys)
        r = run_tlc("MC_hist", cfg, workers=NCPU // 2 if tier == "quick" else NCPU, timeout=3000)
        if r["violated"]:
            sys.stderr.write(r["out"][-3000:])
            raise MachineryError("specification invariant %s violated in %s: the model and the properties disagree" % (r["violated"], cfg))
        jobs.append(tlc_job_summary(r))
        log("TLC %s: %d states, %d distinct, %.0fs" % (r["cfg"], r["states"], r["distinct"], r["wall_s"]))
    # vacuity guard: the invariants of this property must reject the named model mutants
    for dev, mode, expect in PROP_MUTANTS.get(prop, []):
        cfg = hist_cfg("hist_%s_mut_%s" % (prop, dev), mode, 4, 3, False, dev='{"%s"}' % dev)
        r = run_tlc("MC_hist", cfg, workers=NCPU // 2, timeout=900)
        if r["violated"] not in expect:
            raise MachineryError("model mutant %s was not rejected by %s (got %s): invariant is vacuous" % (dev, expect, r["violated"]))
        j = tlc_job_summary(r)
        j["mutant"] = dev
        j["rejected_by"] = r["violated"]
        jobs.append(j)
        log("model mutant %s rejected by %s" % (dev, r["violated"]))
    if prop == "C18":
        # liveness of the log-size hand-shake: held-back ingestion proceeds once the flush thread (which triggers on its
        # own) has run; without fairness of the flush thread the property must fail (vacuity guard)
        for spec, expect_fail in (("LiveSpec", False), ("LiveSpecNoFlushFairness", True)):
            cfg = write_cfg("live_%s" % spec, LIVE_CFG % (spec, 3 if tier == "quick" else 4))
            r = run_tlc("MC_live", cfg, workers=4, timeout=1800)
            failed = (r["violated"] or "").startswith("temporal")
            if r["violated"] and not failed:
                raise MachineryError("MC_live: %s violated" % r["violated"])
            if failed != expect_fail:
                raise MachineryError("MC_live %s: liveness %s" % (spec, "violated: " + r["violated"] if failed else "holds without fairness of the flush thread (vacuous)"))
            j = tlc_job_summary(r)
            j["liveness"] = "BlockedIngestProceeds EveryIngestAcked FlushTerminates " + ("violated without flush fairness (guard)" if expect_fail else "hold")
            jobs.append(j)
            log("MC_live %s: %s" % (spec, j["liveness"]))
    if prop == "C08":
        import conccheck
        cfg = conccheck.conc_cfg("conc_mut_cursor", "never", 2, 1, "MCAvoidKnown", dev='{"CursorIsNextWal"}')
        r = run_tlc("MC_conc", cfg, workers=NCPU // 2, timeout=900)
        if r["violated"] not in ("Durable", "ContentOK"):
            raise MachineryError("model mutant CursorIsNextWal not rejected (got %s): invariant Durable is vacuous" % r["violated"])
        j = tlc_job_summary(r)
        j["mutant"] = "CursorIsNextWal"
        j["rejected_by"] = r["violated"]
        jobs.append(j)
        log("model mutant CursorIsNextWal rejected by %s (concurrent configuration)" % r["violated"])
    return jobs


def emit_behaviours(tag, maxops, maxreq):
    cfg = hist_cfg("hist_emit_%s_%d" % (tag, maxops), "always1", maxops, maxreq, True)
    r = run_tlc("MC_hist", cfg, workers=NCPU // 2, timeout=3000)
    if r["violated"]:
        raise MachineryError("emission job violated %s" % r["violated"])
    lines = extract_replay_lines(r["out"])
    if not lines:
        raise MachineryError("emission job produced no behaviours")
    # deduplicate by operation sequence + request definitions
    seen, uniq = set(), []
    for l in lines:
        b = json.loads(l)
        key = json.dumps([b["ops"], b["reqDef"]], sort_keys=True)
        if key not in seen:
            seen.add(key)
            uniq.append(l)
    d = os.path.join(WORK, "hist")
    os.makedirs(d, exist_ok=True)
    path = os.path.join(d, "behaviours_%s_%d.ndjson" % (tag, os.getpid()))
    with open(path, "w") as f:
        for l in uniq:
            f.write(l + "\n")
    log("emitted %d behaviours (%d states) -> %s" % (len(uniq), r["distinct"], path))
    return path, uniq, tlc_job_summary(r)


def replay(path, tag, variants, cfgflags, nshards=None):
    nshards = nshards or NCPU

    def mk(i, n, out, skip):
        return [LVH, "replay-hist", "--in", path, "--out", out, "--shard", str(i), "--of", str(n), "--skip", str(skip),
                "--variants", ",".join(str(v) for v in variants)] + cfgflags
    t = time.time()
    res = run_shards(mk, nshards, os.path.join(WORK, "hist", "out_%s_%d" % (tag, os.getpid())))
    log("replayed %s: %d results in %.0fs" % (tag, len(res), time.time() - t))
    return res


KF_HEX, KF_LZ4STR = 1000000, 1000001


def kf_relevant(l):
    """histories in which a table column `c` (the one the known-finding value classes make a hex-packed /
    compressible packed string column) is ingested and a flush follows"""
    b = json.loads(l)
    for i, o in enumerate(b["ops"]):
        if o["op"] == "ingest" and any(c["t"] == "ta" and "c" in c["names"] for c in b["reqDef"][o["req"] - 1]):
            if any(x["op"] == "flush" for x in b["ops"][i + 1:]):
                return True
    return False


def run(prop, tier, replay_path=None):
    t0 = time.time()
    build_harness()
    if replay_path:
        return replay_single(prop, replay_path)
    jobs = model_jobs(prop, tier)
    maxops = 4 if tier == "quick" else 5
    path, behaviours, ej = emit_behaviours(prop, maxops, 3 if tier == "quick" else 4)
    jobs.append(ej)
    sd = seed()
    runs = []
    if tier == "quick":
        # two value-class rotations for the compacting modes, one for the mode that never compacts
        runs.append(("f0", [sd, sd + 1], ["--combine", "0"]))
        runs.append(("f1", [sd + 2, sd + 3], ["--combine", "1"]))
        runs.append(("f999", [sd + 1], ["--combine", "999"]))
    else:
        for factor in (0, 1, 999):
            runs.append(("f%d" % factor, [sd + k for k in range(20)][::1][:8], ["--combine", str(factor)]))
        runs.append(("f0_io4", [sd + 9], ["--combine", "0", "--io-threads", "4", "--compaction-threads", "4"]))
        runs.append(("f0_sub1", [sd + 10], ["--combine", "0", "--part-bytes", "1"]))
        runs.append(("f1_nolz4", [sd + 11], ["--combine", "1", "--lz4", "0", "--part-bytes", "200"]))
        runs.append(("f4", [sd + 12], ["--combine", "4", "--threads", "1"]))
    results = []
    for tag, variants, flags in runs:
        for r in replay(path, prop + "_" + tag, variants, flags):
            r["cfgflags"] = flags
            results.append(r)
    # confirmation runs for the known findings that the ordinary value classes avoid on purpose
    kf_results = []
    if prop in ("C07", "C11"):
        sub = [l for l in behaviours if kf_relevant(l)][:48]
        kpath = path + ".kf"
        with open(kpath, "w") as f:
            for l in sub:
                f.write(l + "\n")
        for r in replay(kpath, prop + "_kf", [KF_HEX, KF_LZ4STR], ["--combine", "0"]):
            r["cfgflags"] = ["--combine", "0"]
            r["kf_run"] = True
            r["behaviour"] = sub[r["idx"]]
            kf_results.append(r)
    for r in results:
        r["behaviour"] = behaviours[r["idx"]]
    # B2: record the internal steps of a spread sample of the histories and validate them against the spec
    import tracecheck
    tv = []
    for tag, flags in (("f0", ["--combine", "0"]), ("f1", ["--combine", "1"])):
        rs, _ = tracecheck.record_and_validate(path, prop + "_" + tag, flags, [sd], per_shard=6 if tier == "quick" else 40)
        tv += rs
    # C08 / C18 quantify over configurations in which the engine flushes on its own while clients ingest:
    # randomised multi-threaded runs with tiny log limits and restarts, checked directly and by trace validation
    stress = []
    if prop in ("C08", "C18"):
        import conccheck
        flagsets = [["--combine", "1", "--bg-flush", "--clients", "4", "--queriers", "1", "--requests", "14", "--restarts", "3"],
                    ["--combine", "0", "--bg-flush", "--clients", "3", "--queriers", "1", "--requests", "10", "--restarts", "2", "--io-threads", "4"],
                    ["--combine", "999", "--bg-flush", "--clients", "5", "--queriers", "2", "--requests", "12", "--restarts", "2"]]
        stress = conccheck.run_stress([sd * 977 + k for k in range(6 if tier == "quick" else 48)], flagsets)
        for r in stress:
            if r.get("tv"):
                tv.append(r["tv"])
    return verdict(prop, tier, jobs, behaviours, results + kf_results, t0, tv, stress)


def relevant(prop, v):
    if prop == "C11":
        return v["prop"] == "C11" or v["oracle"] in ("op-completes", "query-completes", "open", "reopen")
    return v["prop"] == prop


def verdict(prop, tier, jobs, behaviours, results, t0, tv=(), stress=()):
    violations, known_hits = [], []
    for r in stress:
        for v in r["violations"]:
            # lost or duplicated acknowledged rows in a run with restarts / background flushes
            if prop == "C08" and v["prop"] in ("C08", "C10", "C07"):
                kf = match_known("C10", v, r.get("panics", []))
                if kf:
                    known_hits.append(kf)
                    continue
                p = save_replay(prop, len(violations), {"kind": "stress", "seed": r["seed"], "flags": r["flags"]})
                violations.append(("stress seed %d: %s: %s" % (r["seed"], v["oracle"], v["what"]), p))
    for r in tv:
        if not r["accepted"] and r.get("prop") == prop:
            p = save_replay(prop, len(violations), {"kind": "trace", "trace": r["norm_path"], "raw": r["raw_path"], "what": r["what"]})
            violations.append(("trace validation: " + r["what"], p))
    steps = queries = replays = nontrivial = 0
    seen_nt = set()
    for r in results:
        if r.get("process_died"):
            if prop == "C11":
                p = save_replay(prop, len(violations), {"kind": "hist", "behaviour": json.loads(r["behaviour"]), "variant": None, "cfgflags": r.get("cfgflags")})
                violations.append(("replay process died (abort) while replaying behaviour %d" % r["idx"], p))
            continue
        replays += 1
        steps += r["steps_run"]
        queries += r["queries_run"]
        b = json.loads(r["behaviour"])
        ops = [o["op"] for o in b["ops"]]
        nt = {"C07": any(o in ("flush", "evict") for o in ops[1:]) and "ingest" in ops,
              "C08": "restart" in ops[1:] and "ingest" in ops,
              "C13": ops.count("ingest") >= 2,
              "C18": "flush" in ops and "ingest" in ops,
              "C11": True}[prop]
        if nt:
            seen_nt.add((r["idx"], r.get("variant"), tuple(r.get("cfgflags", []))))
        for v in r["violations"]:
            if not relevant(prop, v):
                continue
            v["variant"] = r["variant"]
            kf = match_known(prop, v, r.get("panics", []))
            if kf:
                known_hits.append(kf)
                continue
            p = save_replay(prop, len(violations), {"kind": "hist", "behaviour": b, "variant": r["variant"], "cfgflags": r.get("cfgflags")})
            violations.append(("%s step %d (%s): %s | panics: %s" % (v["oracle"], v["step"], v["op"], v["what"], r.get("panics", [])[:2]), p))
    nontrivial = len(seen_nt)
    coverage = {
        "states": sum(j["distinct"] for j in jobs),
        "transitions": sum(j["states"] for j in jobs),
        "traces_validated_against_impl": replays + sum(1 for r in tv if r["accepted"]),
        "recorded_traces": {"files": len(tv), "events": sum(r["events"] for r in tv), "accepted": sum(1 for r in tv if r["accepted"]),
                            "rejected_for_other_property": [r["what"][:200] for r in tv if not r["accepted"] and r.get("prop") != prop][:5]},
        "samples": [json.loads(l) for l in behaviours[len(behaviours) // 2: len(behaviours) // 2 + 2]],
        "evaluations": steps,
        "distinct_nontrivial": nontrivial,
        "rule": "every history of the bounded length over {ingest(4 shapes), force_flush, evict_cache, restart} emitted by TLC; "
                "replayed under partition_combine_factor 0/1/999 with rotating value classes; non-trivial = the history contains "
                "the operation kind the property is about after at least one ingest; distinct by (history, value class, options)",
        "jobs": jobs,
        "queries_compared": queries,
        "behaviours_emitted": len(behaviours),
        "exhaustive": True,
    }
    write_evidence(prop, tier, "model_checking", coverage,
                   ["deadline 20 s per operation (3 s once a thread of the database has panicked)",
                    "value classes are strictly monotone concretisations of the abstract rows",
                    "known findings KF1/KF2 value classes are confirmed in a separate run"],
                   time.time() - t0, len(violations))
    finish(prop, violations, known_hits)


def replay_single(prop, path):
    payload = json.load(open(path))
    if payload.get("kind") in ("stress", "trace"):
        import conccheck
        return conccheck.replay_single(path)
    d = os.path.join(WORK, "hist")
    os.makedirs(d, exist_ok=True)
    bpath = os.path.join(d, "single_%d.ndjson" % os.getpid())
    with open(bpath, "w") as f:
        f.write(json.dumps(payload["behaviour"]) + "\n")
    cmd = [LVH, "replay-one", "--in", bpath, "--idx", "0", "--variant", str(payload["variant"] or 0)] + (payload.get("cfgflags") or [])
    p = subprocess.run(cmd, stdout=subprocess.PIPE, text=True)
    print(p.stdout)
    out = p.stdout[p.stdout.index("\n") + 1:]
    res = json.loads(out)
    bad = [v for v in res["violations"] if relevant(prop, v)]
    if bad:
        print("VIOLATION property=%s replay=%s" % (prop, path))
        sys.exit(1)
    sys.exit(0)
