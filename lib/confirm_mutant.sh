#!/bin/bash
# usage: confirm_mutant.sh <name> <out_dir with patch.diff demo.rs>   (run one at a time)
# Confirms in a scratch worktree (outside /repo and /verif): suite passes with the change,
# demo fails with it, demo passes without it. Writes <out_dir>/confirm.json
name=$1; out=$2
wt=/tmp/confirm_wt
export CARGO_NET_OFFLINE=true CARGO_TARGET_DIR=/tmp/confirm_target
if [ ! -d $wt ]; then git -C /repo worktree add --detach $wt HEAD >/dev/null 2>&1; fi
cd $wt && git checkout -q --detach $(git -C /repo rev-parse HEAD) && git reset -q --hard && git clean -qfd tests
cp $out/demo.rs tests/seeded_$name.rs
# without the change
timeout 3000 cargo test --offline --test seeded_$name > $out/confirm_without.log 2>&1; rc_without=$?
git apply $out/patch.diff || { echo '{"error":"patch does not apply"}' > $out/confirm.json; exit 1; }
timeout 3000 cargo test --offline --test seeded_$name > $out/confirm_with.log 2>&1; rc_with=$?
mv tests/seeded_$name.rs /tmp/seeded_$name.rs.aside
timeout 3000 cargo test --offline --workspace --no-fail-fast > $out/confirm_suite.log 2>&1; rc_suite=$?
git reset -q --hard; git clean -qfd tests
echo "{\"name\":\"$name\",\"demo_without_change_rc\":$rc_without,\"demo_with_change_rc\":$rc_with,\"suite_with_change_rc\":$rc_suite,\"repo_head\":\"$(git -C /repo rev-parse --short HEAD)\"}" > $out/confirm.json
cat $out/confirm.json
