"""C09: LocustStore.tla with file-system micro-steps and Crash anywhere (MC_crash), bound to the code by
crash images taken at every primitive file-system effect of TLC-emitted workloads (B3)."""
import json
import os
import random
import time

from common import *
import histcheck

CRASH_CFG = """SPECIFICATION {spec}
CONSTANTS
  UT = {{"ta", "tb"}}
  Shapes <- MCShapes
  SubKeys = {{"all"}}
  Clients = {{"c1"}}
  QClients = {{}}
  MaxReq = {maxreq}
  MaxWal = 100
  MaxWalFiles = 100
  CombineMode = "{mode}"
  FsSteps = TRUE
  Dev = {dev}
  Avoid <- MCAvoid
  MaxOps = {maxops}
  MaxCrash = {maxcrash}
CONSTRAINT Bound
ACTION_CONSTRAINT Canon
{props}
CHECK_DEADLOCK FALSE
"""
INVS = "INVARIANTS ContentOK Tiles ColumnsKept CatalogueExactlyOnce NoFailure Durable"


def crash_cfg(name, mode, maxops, maxreq, maxcrash, dev="{}", live=False):
    return write_cfg(name, CRASH_CFG.format(spec="CrashLiveSpec" if live else "CrashSpec", mode=mode, maxops=maxops, maxreq=maxreq,
                                            maxcrash=maxcrash, dev=dev, props=(INVS + "\nPROPERTIES RecoveryTerminates") if live else INVS))


def model_jobs(tier):
    jobs = []
    plan = [("always", 2, 2, 2, False)] if tier == "quick" else [("always", 3, 2, 2, False), ("any", 3, 2, 1, False), ("always", 2, 2, 1, True)]
    for mode, maxops, maxreq, maxcrash, live in plan:
        cfg = crash_cfg("crash_%s_%d_%d%s" % (mode, maxops, maxcrash, "_live" if live else ""), mode, maxops, maxreq, maxcrash, live=live)
        r = run_tlc("MC_crash", cfg, workers=NCPU // 2 if tier == "quick" else NCPU, timeout=3400, xmx="16g")
        if r["violated"]:
            sys.stderr.write(r["out"][-3000:])
            raise MachineryError("specification property %s violated in %s" % (r["violated"], cfg))
        jobs.append(tlc_job_summary(r))
        log("TLC %s: %d states, %d distinct, %.0fs" % (r["cfg"], r["states"], r["distinct"], r["wall_s"]))
    # vacuity guard: the historical behaviour (temp files in wal/ loaded like segments) must be rejected
    cfg = crash_cfg("crash_mut_tmp", "always", 2, 2, 2, dev='{"TmpInWalDirIsLoaded"}')
    r = run_tlc("MC_crash", cfg, workers=NCPU // 2, timeout=900)
    if r["violated"] not in ("NoFailure", "Durable", "ContentOK"):
        raise MachineryError("model mutant TmpInWalDirIsLoaded not rejected (got %s)" % r["violated"])
    j = tlc_job_summary(r)
    j["mutant"] = "TmpInWalDirIsLoaded"
    j["rejected_by"] = r["violated"]
    jobs.append(j)
    log("model mutant TmpInWalDirIsLoaded rejected by %s" % r["violated"])
    return jobs


def select_workloads(behaviours, n, rnd):
    good = []
    for l in behaviours:
        b = json.loads(l)
        ops = [o["op"] for o in b["ops"]]
        if "evict" in ops or ops.count("ingest") < 1 or "flush" not in ops:
            continue
        if ops.index("ingest") > ops.index("flush") and ops.count("flush") == 1:
            continue
        good.append(l)
    # spread over distinct op sequences first
    by_ops = {}
    for l in good:
        by_ops.setdefault(json.dumps([o["op"] for o in json.loads(l)["ops"]]), []).append(l)
    keys = sorted(by_ops)
    rnd.shuffle(keys)
    sel = []
    i = 0
    while len(sel) < n and keys:
        k = keys[i % len(keys)]
        if by_ops[k]:
            sel.append(by_ops[k].pop(rnd.randrange(len(by_ops[k]))))
        else:
            keys.remove(k)
            continue
        i += 1
    return sel


def run(prop, tier, replay_path=None):
    t0 = time.time()
    build_harness()
    if replay_path:
        return replay_single(replay_path)
    jobs = model_jobs(tier)
    path, behaviours, ej = histcheck.emit_behaviours("C09", 4, 3)
    jobs.append(ej)
    rnd = random.Random(seed())
    sel = select_workloads(behaviours, 6 if tier == "quick" else 48, rnd)
    wpath = path + ".crash"
    with open(wpath, "w") as f:
        for l in sel:
            f.write(l + "\n")
    runs = [("f0", ["--combine", "0", "--deep-every", "9"])]
    if tier != "quick":
        runs.append(("f1_io4", ["--combine", "1", "--io-threads", "4", "--deep-every", "11"]))
    results = []
    for tag, flags in runs:
        def mk(i, n, out, skip, flags=flags):
            return [LVH, "crashimg", "--in", wpath, "--out", out, "--shard", str(i), "--of", str(n), "--skip", str(skip), "--variants", str(seed())] + flags
        t = time.time()
        env_deadline = os.environ.get("LVH_DEADLINE_S")
        os.environ["LVH_DEADLINE_S"] = os.environ.get("LVH_DEADLINE_S", "15")
        rs = run_shards(mk, min(NCPU, len(sel)), os.path.join(WORK, "hist", "crash_%s_%d" % (tag, os.getpid())), timeout=7000)
        log("crash images %s: %d workloads in %.0fs" % (tag, len(rs), time.time() - t))
        for r in rs:
            r["cfgflags"] = flags
            r["behaviour"] = sel[r["idx"]]
            results.append(r)
    violations = []
    images = d2 = inside = 0
    for r in results:
        if r.get("process_died"):
            p = save_replay("C09", len(violations), {"kind": "crash", "behaviour": json.loads(r["behaviour"]), "variant": seed() + r["idx"], "cfgflags": r["cfgflags"]})
            violations.append(("crash-image process died on workload %d" % r["idx"], p))
            continue
        images += r["images"]
        d2 += r["depth2_images"]
        inside += r["inside_op_images"]
        for v in r["violations"]:
            p = save_replay("C09", len(violations), {"kind": "crash", "behaviour": json.loads(r["behaviour"]), "variant": r["variant"], "cfgflags": r["cfgflags"]})
            violations.append(("%s at image %s (%s%s): %s" % (v.get("oracle"), v.get("image"), v.get("at"), (", " + v["torn"]) if v.get("torn") else "", v.get("what")), p))
    sample = None
    for r in results:
        if "effects" in r:
            sample = {"workload": json.loads(r["behaviour"])["ops"], "effects": r["effects"][:40], "images": r["images"], "depth2_images": r["depth2_images"]}
            break
    coverage = {
        "states": sum(j["distinct"] for j in jobs), "transitions": sum(j["states"] for j in jobs),
        "traces_validated_against_impl": len([r for r in results if "images" in r]),
        "samples": [sample],
        "evaluations": images + d2, "distinct_nontrivial": inside,
        "rule": "one image per primitive file-system effect (mkdir/create/write/sync/rename/remove) of each workload plus three torn variants of every "
                "temp-file write; every image reopened, compared with the admissible contents of the specification, flushed, and crashed again at the "
                "effects of its own recovery (and of its first flush for every 9th image); non-trivial = image taken while an operation was in progress",
        "jobs": jobs, "depth2_images": d2, "workloads": len(sel), "exhaustive": False,
    }
    write_evidence("C09", tier, "model_checking", coverage,
                   ["images are copies of the directory as written: loss of un-fsynced data is not simulated (presence and order of sync is checked by trace validation)",
                    "deadline 15 s per reopen"], time.time() - t0, len(violations))
    finish("C09", violations, [])


def replay_single(path):
    payload = json.load(open(path))
    d = os.path.join(WORK, "hist")
    os.makedirs(d, exist_ok=True)
    bpath = os.path.join(d, "single_crash_%d.ndjson" % os.getpid())
    out = bpath + ".out"
    with open(bpath, "w") as f:
        f.write(json.dumps(payload["behaviour"]) + "\n")
    if os.path.exists(out):
        os.remove(out)
    env = dict(os.environ, TMPDIR="/dev/shm")
    subprocess.run([LVH, "crashimg", "--in", bpath, "--out", out, "--variants", str(payload["variant"])] + payload["cfgflags"], env=env)
    bad = 0
    for l in open(out):
        r = json.loads(l)
        for v in r.get("violations", []):
            print(json.dumps(v))
            bad += 1
    if bad:
        print("VIOLATION property=C09 replay=%s" % path)
        sys.exit(1)
    sys.exit(0)
